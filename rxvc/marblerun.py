"""Native runner for C38 (cross-check of the tokeniser contract and of the loop contracts; replay; bounded).

Runs under /venv/bin/python.  Every marble string of the documented syntax up to `max_len` characters over the alphabet
{-, a, b, 1, ., |, #, (, ), ',', space} (groups balanced, not nested, not empty of parentheses) is parsed by the real
`parse` and by a scanner written from the documentation, character by character:
  spaces do not count; `-` advances time by one frame; `|` / `#` / a maximal run of ordinary characters is one marble at the
  frame of its first character; `( ... )` emits its comma-separated non-empty elements at the frame of `(` and advances by
  its whole length; a comma outside a group is a ValueError; with raise_stopped a marble after `|` or `#` is a ValueError;
  a value is int if it parses as one, else float if it parses as one, else the text, and is replaced by lookup[value] iff
  value is a key.
Then from_marbles, hot and the testing context (cold / hot / exp) are run on a TestScheduler and must deliver exactly the
parsed notifications at the parsed times.

usage: marblerun.py replay - C38 '<json opts>'
       marblerun.py case '<json case>'
"""
from __future__ import annotations

import itertools
import json
import os
import sys

VERIF = os.path.dirname(os.path.dirname(os.path.abspath(__file__)))
REPO = os.environ.get("RXVC_REPO", "/repo")
if REPO not in sys.path:
    sys.path.insert(0, REPO)

ALPHABET = "-ab1.|#(), "
SPECIAL = "-|#(),"
LOOKUPS = [None, {"a": None, 1: 0, "b": "", 1.0: "one", "ab": [], "1.": False}]


def documented(s):
    """balanced, non-nested groups; no stray parenthesis"""
    depth = 0
    for ch in s:
        if ch == "(":
            if depth:
                return False
            depth = 1
        elif ch == ")":
            if not depth:
                return False
            depth = 0
    return depth == 0


def number(text):
    try:
        return int(text)
    except ValueError:
        try:
            return float(text)
        except ValueError:
            return text


def reference(s, timespan, shift, lookup, raise_stopped):
    """-> list of (time, kind, value) or ('ValueError',)"""
    s = s.replace(" ", "")
    out, i, stopped = [], 0, False
    lk = lookup or {}

    def marble(frame, text):
        nonlocal stopped
        if raise_stopped:
            if stopped:
                raise ValueError()
            if text in ("|", "#"):
                stopped = True
        t = frame * timespan + shift
        if text == "|":
            return (t, "C", None)
        if text == "#":
            return (t, "E", None)
        v = number(text)
        if v in lk:
            v = lk[v]
        return (t, "N", v)
    try:
        while i < len(s):
            ch = s[i]
            if ch == "-":
                i += 1
            elif ch == ",":
                raise ValueError()
            elif ch == "(":
                j = s.index(")", i)
                elems = s[i + 1:j].split(",")
                ms = []
                if raise_stopped:
                    st0 = stopped
                    for e in elems:
                        if stopped:
                            raise ValueError()
                        if e in ("#", "|"):
                            stopped = True
                    stopped2 = stopped
                    stopped = False
                    _ = st0
                    ms = [marble(i, e) for e in elems if e != ""]
                    stopped = stopped2
                else:
                    ms = [marble(i, e) for e in elems if e != ""]
                out.extend(ms)
                i = j + 1
            elif ch in "|#":
                out.append(marble(i, ch))
                i += 1
            else:
                j = i
                while j < len(s) and s[j] not in SPECIAL:
                    j += 1
                out.append(marble(i, s[i:j]))
                i = j
    except ValueError:
        return ("ValueError",)
    return out


def real(s, timespan, shift, lookup, raise_stopped):
    from reactivex.observable.marbles import parse
    try:
        ms = parse(s, timespan=timespan, time_shift=shift, lookup=lookup, raise_stopped=raise_stopped)
    except ValueError:
        return ("ValueError",)
    out = []
    for (t, n) in ms:
        out.append((t, n.kind, n.value if n.kind == "N" else None))
    return out


def eq_msgs(a, b):
    if isinstance(a, tuple) or isinstance(b, tuple):
        return a == b
    if len(a) != len(b):
        return False
    for x, y in zip(a, b):
        if x[0] != y[0] or x[1] != y[1]:
            return False
        if x[1] == "N" and not (type(x[2]) is type(y[2]) and x[2] == y[2]):
            return False
    return True


def check_parse(c):
    lookup = LOOKUPS[c["lookup"]]
    if c.get("as_timedelta"):
        from datetime import timedelta as _td
        a = real(c["s"], _td(seconds=c["timespan"]), _td(seconds=c["shift"]), lookup, c["raise_stopped"])
    else:
        a = real(c["s"], c["timespan"], c["shift"], lookup, c["raise_stopped"])
    b = reference(c["s"], c["timespan"], c["shift"], lookup, c["raise_stopped"])
    if not eq_msgs(a, b):
        return f"parse({c['s']!r}, timespan={c['timespan']}, time_shift={c['shift']}, lookup={lookup!r}, raise_stopped={c['raise_stopped']}) = {a!r}; the documented syntax means {b!r}"
    return None


def check_sources(c):
    import reactivex as rx
    from reactivex.testing import TestScheduler
    from reactivex.testing.marbles import marbles_testing
    s = c["s"]
    want = reference(s, 10, 0, None, True)
    if isinstance(want, tuple):
        return None
    sched = TestScheduler()
    kind = c["source"]
    if kind == "from_marbles":
        res = sched.start(lambda: rx.from_marbles(s, timespan=10, scheduler=sched), created=100, subscribed=200, disposed=5000)
        got = [(int(m.time) - 200, m.value.kind, m.value.value if m.value.kind == "N" else None) for m in res.messages]
        exp = [(int(t), k, v) for (t, k, v) in want]
    elif kind == "hot":
        got = []
        o = rx.hot(s, timespan=10, duetime=200, scheduler=sched)
        o.subscribe(lambda v: got.append((int(sched.clock) - 200, "N", v)), lambda e: got.append((int(sched.clock) - 200, "E", None)),
                    lambda: got.append((int(sched.clock) - 200, "C", None)))
        sched.start()
        exp = [(int(t), k, v) for (t, k, v) in want]
    elif kind == "hot.datetime":
        # an ABSOLUTE due time: one day + 200.5 virtual seconds after the scheduler's clock (days and fractions must survive)
        from datetime import timedelta as _td
        got = []
        off = 86400 + 200.5
        o = rx.hot(s, timespan=10, duetime=sched.now + _td(seconds=off), scheduler=sched)
        o.subscribe(lambda v: got.append((round(sched.clock - off, 3), "N", v)), lambda e: got.append((round(sched.clock - off, 3), "E", None)),
                    lambda: got.append((round(sched.clock - off, 3), "C", None)))
        sched.start()
        exp = [(round(float(t), 3), k, v) for (t, k, v) in want]
    else:
        with marbles_testing(timespan=10) as (start, cold, hot, exp_):
            src = cold(s) if kind == "testing.cold" else hot(s)
            recs = start(src)
            erecs = exp_(s)
        got = [(int(m.time) - 200, m.value.kind, m.value.value if m.value.kind == "N" else None) for m in recs]
        exp = [(int(t), k, v) for (t, k, v) in want]
        if kind == "testing.hot":
            # a hot source's notification at the very instant of the subscription was scheduled earlier than the subscription
            # and is over when the subscriber arrives (hot semantics, not a parsing matter)
            exp = [m for m in exp if m[0] > 0]
        got_e =[(int(m.time) - 200, m.value.kind, m.value.value if m.value.kind == "N" else None) for m in erecs]
        exp_all = [(int(t), k, v) for (t, k, v) in want]
        if not eq_msgs(got_e, exp_all):
            return f"testing exp({s!r}) = {got_e!r}, the parsed notifications are {exp_all!r}"
    # after a terminal notification nothing more is delivered to a subscriber (C01): cut the expectation there
    cut = next((i for i, m in enumerate(exp) if m[1] in ("C", "E")), None)
    if cut is not None:
        exp = exp[:cut + 1]
    if not eq_msgs(got, exp):
        return f"{kind}({s!r}) delivered {got!r}, the parsed notifications are {exp!r}"
    return None


def cases(max_len):
    seen = set()
    for n in range(0, max_len + 1):
        for tup in itertools.product(ALPHABET, repeat=n):
            s = "".join(tup)
            if not documented(s):
                continue
            key = s.replace(" ", "")
            if (key, " " in s) in seen and n > 3:
                continue
            seen.add((key, " " in s))
            yield s


REPLAY_TEMPLATE = '''#!/venv/bin/python
"""Replay of a violation of property {prop} (marble syntax).
obligation: {oid}
case: {case}
{what}
Exit 1 when it reproduces on the tree under RXVC_REPO (default /repo)."""
import subprocess, sys
r = subprocess.run(["/venv/bin/python", "{verif}/rxvc/marblerun.py", "case", {case!r}])
sys.exit(r.returncode)
'''


def run_case(c):
    return check_sources(c) if c.get("source") else check_parse(c)


def main(argv):
    if argv[0] == "case":
        c = json.loads(argv[1])
        try:
            r = run_case(c)
        except Exception as e:  # noqa: BLE001
            r = f"the case raised {e!r}"
        print(json.dumps({"violation": r}))
        sys.exit(1 if r else 0)
    opts = json.loads(argv[3]) if len(argv) > 3 else {}
    max_len = opts.get("max_len", 4)
    n, found = 0, None
    # long diagrams with a timespan that is no dyadic fraction: the time of a marble is (column index) * timespan + shift EXACTLY - one
    # multiplication, not a sum accumulated token by token
    LONG = ["-a-b-c-d-e-f-g-h-|", "--a--b--c--d--|", "a-(bc)--d---e-f-g-#", "-a-a-a-a--b-----------c|"]
    for s in [None] + list(cases(max_len)):
        todo = []
        if s is None:
            for ls in LONG:
                for ts, sh in ((0.1, 0), (0.1, 200.0), (0.3, 0.7), (1 / 3, 0), (2.5e-7, 0.1234567)):  # (not whole microseconds either)
                    todo.append({"s": ls, "timespan": ts, "shift": sh, "lookup": 1, "raise_stopped": False})
            s = ""
            for c in todo:
                n += 1
                try:
                    r = run_case(c)
                except Exception as e:  # noqa: BLE001
                    r = f"the case raised {e!r}"
                if r:
                    found = {"case": c, "disagreement": r}
                    break
            if found:
                break
            continue
        for li in range(len(LOOKUPS)):
            for rs in (False, True):
                todo.append({"s": s, "timespan": 10, "shift": 0, "lookup": li, "raise_stopped": rs})
        todo.append({"s": s, "timespan": 0.5, "shift": 3.0, "lookup": 1, "raise_stopped": False})
        # timedeltas count with their whole length (fractions and days included)
        todo.append({"s": s, "timespan": 1.5, "shift": 86400 + 2.25, "lookup": 1, "raise_stopped": False, "as_timedelta": True})
        if len(s) <= min(max_len, 4):
            for src in ("from_marbles", "hot", "hot.datetime", "testing.cold", "testing.hot"):
                todo.append({"s": s, "source": src})
        for c in todo:
            n += 1
            try:
                r = run_case(c)
            except Exception as e:  # noqa: BLE001
                r = f"the case raised {e!r}"
            if r:
                found = {"case": c, "disagreement": r}
                break
        if found:
            break
    res = {"cases": n, "found": [found] if found else []}
    if found and "replay_path" in opts:
        os.makedirs(os.path.dirname(opts["replay_path"]), exist_ok=True)
        with open(opts["replay_path"], "w") as f:
            f.write(REPLAY_TEMPLATE.format(prop=opts.get("prop", "C38"), oid=opts.get("oid", "?"), verif=VERIF, case=json.dumps(found["case"]), what=found["disagreement"]))
        res["replay"] = opts["replay_path"]
    print(json.dumps(res, default=repr))


if __name__ == "__main__":
    main(sys.argv[1:])
