"""The public entry points of a property's operators (reactivex/operators/__init__.py, reactivex/__init__.py) are thin functions
around the implementation functions that are under contract.  The K1 / function contracts speak about the implementation
(`take_while_(predicate, inclusive)(source)`); that the PUBLIC call a user writes reaches that implementation with the very
arguments is this unit: the real public function is executed symbolically with opaque arguments, the implementation functions are
used by contract (an application is recorded, not executed; curry_flip / compose are the real code), and

  * the result, applied to a source, is exactly ONE application of the expected implementation function - nothing in front of it,
    nothing after it;
  * every parameter of the implementation is bound as the documentation says.  Default rule (holds for all but a dozen of the public
    functions): `ops.X(p1, p2, ...)` is `X_(source, p1=p1, p2=p2, ...)` - the implementation `X_`, every parameter receiving the
    public parameter of the SAME NAME, unchanged; parameters the public function does not have keep their defaults.  The
    exceptions are the table EXPECT, written from the documentation of the public functions (element_at is
    element_at_or_default_(index, has_default=False), find_index is find_value_(predicate, yield_index=True), ...).

Which public functions belong to a property: those whose expected implementation lives in one of the property's files (anchors
and files under contract) - found by name in the tree on every run.
"""
from __future__ import annotations

import ast
import os
import time

import z3

from . import smt
from .grouping import GroupingHarness
from .interp import NOTSET, explore
from .loader import Loader, repo_py_files
from .refine import Result
from .values import SV, BoundMethod, Closure, Opaque, PyExc, Unsupported

OFILE = "reactivex/operators/__init__.py"
RFILE = "reactivex/__init__.py"

P = lambda n: ("param", n)      # noqa: E731  the public parameter of that name, unchanged
C = lambda v: ("const", v)      # noqa: E731  a constant
V = lambda n: ("varargs", n)    # noqa: E731  the public *args, in order, as the implementation's *args
T = lambda n: ("tuple", n)      # noqa: E731  the public *args, in order, as ONE iterable argument

#: public function -> (implementation function, {implementation parameter: binding}); everything else follows the default rule
EXPECT = {
    OFILE: {
        "amb": ("amb_", {"left_source": P("source"), "right_source": P("right_source")}),
        "element_at": ("element_at_or_default_", {"source": P("source"), "index": P("index"), "has_default": C(False)}),
        "element_at_or_default": ("element_at_or_default_", {"source": P("source"), "index": P("index"), "has_default": C(True), "default_value": P("default_value")}),
        "find": ("find_value_", {"source": P("source"), "predicate": P("predicate"), "yield_index": C(False)}),
        "find_index": ("find_value_", {"source": P("source"), "predicate": P("predicate"), "yield_index": C(True)}),
        "fork_join": ("fork_join_", {"source": P("source"), "args": V("others")}),
        "last_or_default": ("last_or_default", {"default_value": P("default_value"), "predicate": P("predicate")}),
        "to_marbles": ("to_marbles", {"scheduler": P("scheduler"), "timespan": P("timespan")}),
        "tap": ("do_action_", {"source": P("source"), "on_next": P("on_next"), "on_error": P("on_error"), "on_completed": P("on_completed")}),
        "zip_with_iterable": ("zip_with_iterable_", {"source": P("source"), "seq": P("second")}),
    },
    RFILE: {
        "catch": ("catch_with_iterable_", {"sources": T("sources")}),
        "concat": ("concat_with_iterable_", {"sources": T("sources")}),
        "combine_latest": ("combine_latest_", {"sources": V("__sources")}),
        "of": ("from_iterable_", {"iterable": T("args"), "scheduler": C(None)}),
        "with_latest_from": ("with_latest_from_", {"parent": P("sources#0"), "sources": V("sources#1:")}),
        "from_marbles": ("from_marbles", None), "hot": ("hot", None),
    },
}
#: public functions that are compositions or have contracts of their own elsewhere (flatwire.py, K1 contract of starmap, frame / seqcomp)
ELSEWHERE = {OFILE: {"concat_map", "switch_map", "switch_map_indexed", "starmap", "starmap_indexed", "pipe", "compose"},
             RFILE: {"for_in", "create", "pipe", "compose", "from_marbles", "hot"}}


def _defs(loader, directory):
    """top-level function name -> file, for the implementation modules of one directory (recursively)"""
    out = {}
    for rel in repo_py_files(loader.repo, directory):
        if rel.endswith("__init__.py"):
            continue
        try:
            tree = loader.load_file(rel).tree
        except (OSError, SyntaxError):
            continue
        for n in tree.body:
            if isinstance(n, ast.FunctionDef):
                out.setdefault(n.name, rel)
    return out


class PubHarness(GroupingHarness):
    def rec(self, ctx, oid, goal, detail=""):
        t0 = time.time()
        if isinstance(goal, bool):
            goal = z3.BoolVal(goal)
        v, m, b = smt.prove(ctx.pc, goal)
        ctx.results.append(Result(oid, v, b, smt.model_to_dict(m), list(ctx.branch_log), detail, time.time() - t0, "post"))

    def check_one(self, ctx, pubfile, fn, impl_name, binding, impl_dir):
        name = fn.name
        uid = f"{pubfile}::{name}"
        calls = []
        modname = "reactivex.operators" if pubfile == OFILE else "reactivex"

        def hook(it_, f, args, kwargs):
            g = f.func if isinstance(f, BoundMethod) else f
            if (isinstance(g, Closure) and g.module is not None and g.module.name.startswith(impl_dir) and g.module.name != modname
                    and g.qualname.count(".") == 0 and not g.qualname.startswith("_")):
                a = g.node.args
                calls.append((g.module.name, g.qualname, [x.arg for x in a.posonlyargs + a.args], a.vararg.arg if a.vararg else None,
                              [x.arg for x in a.kwonlyargs], list(args), dict(kwargs)))
                return Opaque("applied", g.qualname, n=len(calls))
            return NOTSET
        it = self.setup(ctx, hook)
        f = it.module_get(modname, name)
        a = fn.args
        pub = {}
        args = []
        for p in a.posonlyargs + a.args:
            pub[p.arg] = Opaque("param", p.arg)
            args.append(pub[p.arg])
        if a.vararg:
            pub[a.vararg.arg] = [Opaque("param", a.vararg.arg + "#0"), Opaque("param", a.vararg.arg + "#1")]
            args += pub[a.vararg.arg]
        kw = {}
        for p in a.kwonlyargs:
            pub[p.arg] = Opaque("param", p.arg)
            kw[p.arg] = pub[p.arg]
        src = Opaque("param", "source")
        pub["source"] = src
        try:
            r = it.call(f, args, kw)
            if pubfile == OFILE and not calls:
                r = it.call(r, [src], {})
        except (PyExc, Unsupported) as e:
            self.rec(ctx, uid + f"/is-{impl_name}-with-the-very-arguments", False, detail=f"{e} {getattr(getattr(e, 'value', None), 'fields', '')}")
            return
        ok_shape = len(calls) == 1 and isinstance(r, Opaque) and r.kind == "applied" and r.attrs.get("n") == 1 and calls[0][1] == impl_name
        self.rec(ctx, uid + f"/is-exactly-one-application-of-{impl_name}", ok_shape,
                 detail=f"implementation functions applied: {[c[1] for c in calls]}; result: {r}")
        if not ok_shape:
            return
        _mod, _q, params, vararg, kwonly, cargs, ckw = calls[0]
        bound = {}
        for i, v in enumerate(cargs):
            if i < len(params):
                bound[params[i]] = v
            else:
                bound.setdefault(vararg or "*", []).append(v)
        for k, v in ckw.items():
            bound[k] = v
        if binding is None:
            # default rule: every implementation parameter gets the public parameter of the same name
            binding = {}
            for pn in params + kwonly:
                if pn in pub:
                    binding[pn] = P(pn)
            if vararg and vararg in pub:
                binding[vararg] = V(vararg)
        bad = []
        for pn, (kind, what) in binding.items():
            got = bound.get(pn, NOTSET)
            if kind == "param":
                want = pub.get(what)
                if what.endswith("#0"):
                    want = pub[what[:-2]][0]
                if got is not want:
                    bad.append(f"{pn}: got {got}, expected the public parameter `{what}`")
            elif kind == "const":
                same = got is what or (isinstance(got, bool) and isinstance(what, bool) and got == what)
                if isinstance(got, SV):
                    same = False
                if got is NOTSET:
                    # left to the implementation's default: accepted only when that default IS the constant
                    same = False
                if not same:
                    bad.append(f"{pn}: got {got}, expected the constant {what!r}")
            elif kind in ("varargs", "tuple"):
                base, start = (what.split("#")[0], 1) if what.endswith("#1:") else (what, 0)
                want = list(pub.get(base, []))[start:]
                gl = got if kind == "varargs" else (list(got) if isinstance(got, tuple) else (list(got.items) if hasattr(got, "items") and isinstance(got.items, list) else None))
                if gl is NOTSET and not want:
                    gl = []
                if not isinstance(gl, list) or len(gl) != len(want) or any(x is not y for x, y in zip(gl, want)):
                    bad.append(f"{pn}: got {got}, expected the public *{base}{' (from the second on)' if start else ''} in order")
        extra = [k for k in bound if k not in binding and k != "*"]
        # parameters bound though the documentation does not say so: only None / the public parameter of the same name are harmless
        for k in extra:
            v = bound[k]
            if v is not None and v is not pub.get(k):
                bad.append(f"{k}: unexpectedly bound to {v}")
        self.rec(ctx, uid + f"/is-{impl_name}-with-the-very-arguments", not bad, detail="; ".join(bad))

    def run(self, targets):
        """targets: list of (pubfile, FunctionDef, impl name, binding, impl dir)"""
        t0 = time.time()
        try:
            for (pubfile, fn, impl_name, binding, impl_dir) in targets:
                self.functions[f"{pubfile}::{fn.name}"] = self.loader.sha(pubfile, fn.name)
                for p in explore(lambda ctx, _a=(pubfile, fn, impl_name, binding, impl_dir): self.check_one(ctx, *_a)):
                    self.results.extend(p.results)
        except Unsupported as e:
            self.unsupported = str(e)
        except PyExc as e:
            self.unsupported = f"interpreter-level exception: {e.value!r} {getattr(e.value, 'fields', '')}"
        self.seconds = time.time() - t0
        return self


def targets_for(loader, files):
    """the public functions whose expected implementation is defined in one of `files`"""
    files = set(files)
    out = []
    for pubfile, directory, impl_dir in ((OFILE, "reactivex/operators", "reactivex.operators"), (RFILE, "reactivex/observable", "reactivex.observable")):
        defs = _defs(loader, directory)
        try:
            tree = loader.load_file(pubfile).tree
        except (OSError, SyntaxError):
            continue
        for n in tree.body:
            if not isinstance(n, ast.FunctionDef) or n.name.startswith("_") or n.name in ELSEWHERE[pubfile]:
                continue
            if any((isinstance(d, ast.Name) and d.id == "overload") or (isinstance(d, ast.Attribute) and d.attr == "overload") for d in n.decorator_list):
                continue  # typing stubs: the definition that runs is the last one
            exp = EXPECT[pubfile].get(n.name)
            impl_name, binding = (exp if exp else (n.name + "_", None))
            rel = defs.get(impl_name)
            if rel is None or rel not in files:
                continue
            out.append((pubfile, n, impl_name, binding, impl_dir))
    return out


MUTANTS = {
    "find_index yields the element": ("    return find_value_(predicate, True)", "    return find_value_(predicate, False)"),
    "element_at gets a default": ("    return element_at_or_default_(index, False)", "    return element_at_or_default_(index, True)"),
    "take_while drops inclusive": ("    return take_while_(predicate, inclusive)", "    return take_while_(predicate)"),
    "scan seed and accumulator swapped": ("    return scan_(accumulator, seed)", "    return scan_(seed, accumulator)"),
    "an extra stage after skip": ("    return skip_(count)", "    return compose(skip_(count), distinct_until_changed())"),
}


def must_fail():
    out = {"mutants": 0, "killed": 0, "survivors": []}
    src = Loader().load_file(OFILE).src
    for name, (a, b) in MUTANTS.items():
        if a not in src:
            continue
        ld = Loader()
        ld.overrides = {OFILE: src.replace(a, b, 1)}
        files = set(_defs(ld, "reactivex/operators").values())
        h = PubHarness(ld).run(targets_for(ld, files))
        out["mutants"] += 1
        if h.unsupported or any(r.verdict == "refuted" for r in h.results):
            out["killed"] += 1
        else:
            out["survivors"].append(name)
    return out


def run_unit(desc):
    loader = Loader()
    tg = targets_for(loader, desc.get("files", []))
    h = PubHarness(loader).run(tg)
    rep = {"unit": f"public-entry-points/{desc['prop']}", "kind": "function contracts of the public entry points (forwarding to the implementation under contract)",
           "functions": h.functions, "results": [r.as_dict() for r in h.results], "unsupported": h.unsupported, "spec_validation": [], "bounded": []}
    if not tg:
        rep["results"].append({"id": rep["unit"] + "/no-public-entry-point-of-its-own", "verdict": "proved", "backend": "frame-analysis", "model": {}, "path": [],
                               "detail": "", "seconds": 0.0, "kind": "frame"})
    if desc.get("tier") == "thorough" and not h.unsupported and desc["prop"] in ("C05", "C06"):
        mf = must_fail()
        rep["must_fail"] = dict(mf, unit=rep["unit"])
        if mf["mutants"] and mf["killed"] < mf["mutants"]:
            rep["crash"] = f"vacuity: must-fail mutants survived: {mf['survivors']}"
    return rep


_ = os
