"""C36 - time values convert consistently: function contracts on the real Scheduler.to_seconds / to_datetime /
to_timedelta (and the `now` properties), executed symbolically for every kind of argument.

Model of the values (the contract of the `datetime` module the three functions are checked against):
  timedelta        an integer number of microseconds `us`
  aware datetime   an instant (integer microseconds since the epoch, UTC) and a utc offset; arithmetic between aware
                   datetimes goes by the instant; `replace(tzinfo=..)` keeps the wall-clock fields, i.e. moves the instant
                   by the difference of the offsets; a naive datetime cannot be subtracted from an aware one (TypeError)
  float seconds    an uninterpreted value; `td.total_seconds()` = us2f(us), `timedelta(seconds=x)` = td(f2us(x)),
                   `datetime.fromtimestamp(x, tz=utc)` = the aware UTC datetime at f2us(x)
A-float (assumed contract of CPython's float <-> microsecond conversions, cross-checked natively, bounded):
  us2f is monotone, f2us is monotone, and f2us(us2f(k)) == k for every integer k with |k| < 2**52 (the error of the
  division by 10**6 in double precision stays below half a microsecond there; measured: no failure in 20000 samples per
  binade below 2**52, 4% failures in the binade above).
Postconditions are taken from the property: each function returns its argument unchanged when it already has the target
representation, and otherwise the one value of the target representation that denotes the same instant / span; the
round-trip and order statements of the property are then lemmas over these postconditions and A-float."""
from __future__ import annotations

import ast
import time

import z3

from . import smt
from .interp import Interp, World, explore
from .loader import Loader
from .refine import Result
from .values import SV, Native, Opaque, PyExc, Unsupported

FILE = "reactivex/scheduler/scheduler.py"
US2F = z3.Function("us2f", z3.IntSort(), smt.Val)
F2US = z3.Function("f2us", smt.Val, z3.IntSort())
RANGE = 2 ** 52  # about 142 years around the epoch: beyond, double seconds no longer resolve single microseconds
F_LE = z3.Function("float_le", smt.Val, smt.Val, z3.BoolSort())


def a_float(ks=(), fs=()):
    """ground instances of A-float for the integer terms ks / float terms fs that occur"""
    out = []
    for k in ks:
        out.append(z3.Implies(z3.And(k > -RANGE, k < RANGE), F2US(US2F(k)) == k))
    for a in ks:
        for b in ks:
            if not a.eq(b):
                out.append(z3.Implies(a <= b, F_LE(US2F(a), US2F(b))))
    for a in fs:
        for b in fs:
            if not a.eq(b):
                out.append(z3.Implies(F_LE(a, b), F2US(a) <= F2US(b)))
    return out


def td(us):
    return Opaque("td", f"td({us})", us=us)


def dt(instant, offset, aware=True):
    return Opaque("dt", f"dt({instant},{offset})", instant=instant, offset=offset, aware=aware)


class TimeWorld(World):
    def getattr(self, it, o, name):
        if o.kind == "dt" and name == "tzinfo":
            return Opaque("tz", "tz", offset=o.attrs["offset"]) if o.attrs["aware"] else None
        return super().getattr(it, o, name)

    def call(self, it, o, method, args, kwargs):
        if o.kind == "td" and method == "total_seconds" and not args:
            return SV(US2F(o.attrs["us"]), "val")
        if o.kind == "dt" and method == "replace" and not args and set(kwargs) == {"tzinfo"}:
            tz = kwargs["tzinfo"]
            if tz is None:
                return dt(o.attrs["instant"] + o.attrs["offset"], z3.IntVal(0), aware=False)
            if isinstance(tz, Opaque) and tz.kind == "tz":
                new = tz.attrs["offset"]
                old = o.attrs["offset"] if o.attrs["aware"] else z3.IntVal(0)
                # the wall-clock fields stay: instant + old offset == new instant + new offset
                return dt(o.attrs["instant"] + old - new, new, aware=True)
        if o.kind == "dt" and method == "astimezone" and len(args) == 1 and isinstance(args[0], Opaque) and args[0].kind == "tz" and o.attrs["aware"]:
            return dt(o.attrs["instant"], args[0].attrs["offset"], aware=True)
        if o.kind == "dt" and method == "timestamp" and not args and o.attrs["aware"]:
            return SV(US2F(o.attrs["instant"]), "val")
        if o.kind == "dt" and method == "astimezone" and len(args) == 1 and isinstance(args[0], Opaque) and args[0].kind == "tz" and not o.attrs["aware"]:
            # a naive datetime is taken to be in the PROCESS's local time zone, whatever that is
            return dt(o.attrs["instant"] - LOCAL_OFFSET, args[0].attrs["offset"], aware=True)
        if o.kind == "dt" and method == "timestamp" and not args and not o.attrs["aware"]:
            return SV(US2F(o.attrs["instant"] - LOCAL_OFFSET), "val")
        if o.kind == "external" and o.name == "datetime.datetime" and method == "__call__":
            # datetime(y, m, d[, h, mi, s, us][, tzinfo=tz]) with literal fields: the wall-clock fields, counted in us from 1970-01-01T00:00
            import datetime as _dt
            if all(isinstance(a, int) and not isinstance(a, bool) for a in args) and 3 <= len(args) <= 7 and set(kwargs) <= {"tzinfo"}:
                wall = z3.IntVal((_dt.datetime(*args) - _dt.datetime(1970, 1, 1)) // _dt.timedelta(microseconds=1))
                tz = kwargs.get("tzinfo")
                if tz is None:
                    return dt(wall, z3.IntVal(0), aware=False)
                if isinstance(tz, Opaque) and tz.kind == "tz":
                    return dt(wall - tz.attrs["offset"], tz.attrs["offset"], aware=True)
        raise Unsupported(f"call on {o.kind}.{method}")

    def binop(self, it, op, a, b):
        k = type(op)
        ka = a.kind if isinstance(a, Opaque) else None
        kb = b.kind if isinstance(b, Opaque) else None
        if k is ast.Sub and ka == "dt" and kb == "dt":
            if a.attrs["aware"] != b.attrs["aware"]:
                raise PyExc(it.make_exc("TypeError", "can't subtract offset-naive and offset-aware datetimes"))
            return td(a.attrs["instant"] - b.attrs["instant"])
        if k is ast.Sub and ka == "dt" and kb == "td":
            return dt(a.attrs["instant"] - b.attrs["us"], a.attrs["offset"], a.attrs["aware"])
        if k is ast.Add and ka == "dt" and kb == "td":
            return dt(a.attrs["instant"] + b.attrs["us"], a.attrs["offset"], a.attrs["aware"])
        if k is ast.Add and ka == "td" and kb == "dt":
            return dt(b.attrs["instant"] + a.attrs["us"], b.attrs["offset"], b.attrs["aware"])
        if k is ast.Add and ka == "td" and kb == "td":
            return td(a.attrs["us"] + b.attrs["us"])
        if k is ast.Sub and ka == "td" and kb == "td":
            return td(a.attrs["us"] - b.attrs["us"])
        if ka in ("dt", "td") or kb in ("dt", "td"):
            raise Unsupported(f"arithmetic {k.__name__} on {ka or type(a).__name__}, {kb or type(b).__name__}")
        return NotImplemented


UTC = Opaque("tz", "utc", offset=z3.IntVal(0))
# the utc offset of the process's local time zone (TZ / the system's setting): an input the library does not control - any value
LOCAL_OFFSET = z3.Int("utc_offset_of_the_process_local_time_zone_us")


class Harness:
    def __init__(self, loader=None):
        self.loader = loader or Loader()
        self.results = []
        self.unsupported = None
        self.functions = {}

    def setup(self, ctx):
        w = TimeWorld()
        it = Interp(self.loader, ctx, w)
        base_isinstance = it.externals["builtins.isinstance"]

        def cls_name(c):
            return getattr(c, "name", None) or ""

        def my_isinstance(it_, a, k):
            v, c = a
            names = [cls_name(x) for x in (c if isinstance(c, tuple) else (c,))]
            if any(n.endswith("datetime") or n.endswith("timedelta") for n in names):
                r = False
                for n in names:
                    if n.endswith("datetime"):
                        r = r or (isinstance(v, Opaque) and v.kind == "dt")
                    elif n.endswith("timedelta"):
                        r = r or (isinstance(v, Opaque) and v.kind == "td")
                return r
            return base_isinstance.fn(it_, a, k)
        it.externals["builtins.isinstance"] = Native("isinstance", my_isinstance)

        def fromtimestamp(it_, a, k):
            x = a[0]
            tz = k.get("tz", a[1] if len(a) > 1 else None)
            us = z3.IntVal(int(x * 10 ** 6)) if isinstance(x, (int, float)) else F2US(it.to_val(x))
            if tz is None:
                return dt(us + LOCAL_OFFSET, z3.IntVal(0), aware=False)  # naive local time: the wall-clock fields of the process's zone
            if isinstance(tz, Opaque) and tz.kind == "tz":
                return dt(us, tz.attrs["offset"], aware=True)
            raise Unsupported("fromtimestamp tz")

        def utcfromtimestamp(it_, a, k):
            x = a[0]
            us = z3.IntVal(int(x * 10 ** 6)) if isinstance(x, (int, float)) else F2US(it.to_val(x))
            return dt(us, z3.IntVal(0), aware=False)

        def now(it_, a, k):
            tz = k.get("tz", a[0] if a else None)
            t = ctx.fresh("wall_clock_us", "int").t
            if tz is None:
                return dt(t, z3.IntVal(0), aware=False)
            return dt(t, tz.attrs["offset"], aware=True)

        def utcnow(it_, a, k):
            return dt(ctx.fresh("wall_clock_us", "int").t, z3.IntVal(0), aware=False)

        def timedelta(it_, a, k):
            if not a and set(k) <= {"seconds"}:
                x = k.get("seconds", 0)
            elif len(a) == 1 and not k and a[0] == 0:
                x = 0
            else:
                raise Unsupported("timedelta(...) shape")
            if isinstance(x, (int, float)):
                return td(z3.IntVal(int(round(x * 10 ** 6))))
            return td(F2US(it.to_val(x)))
        tdn = Native("timedelta", timedelta)
        tdn.name = "timedelta"
        it.externals["datetime.timedelta"] = tdn
        it.externals["datetime.datetime.fromtimestamp"] = Native("fromtimestamp", fromtimestamp)
        it.externals["datetime.datetime.utcfromtimestamp"] = Native("utcfromtimestamp", utcfromtimestamp)
        it.externals["datetime.datetime.now"] = Native("now", now)
        it.externals["datetime.datetime.utcnow"] = Native("utcnow", utcnow)
        it.externals["datetime.timezone.utc"] = UTC
        return it

    def rec(self, ctx, oid, goal, detail="", extra=()):
        t0 = time.time()
        if isinstance(goal, bool):
            goal = z3.BoolVal(goal)
        v, m, b = smt.prove(list(ctx.pc) + list(extra), goal)
        ctx.results.append(Result(oid, v, b, smt.model_to_dict(m), list(ctx.branch_log), detail, time.time() - t0, "post"))

    def arg(self, ctx, kind):
        if kind == "float":
            return SV(z3.Const("x", smt.Val), "val")
        if kind == "timedelta":
            return td(z3.Int("us"))
        return dt(z3.Int("instant"), z3.Int("utcoffset"), aware=True)

    def run_fn(self, ctx, fname, kind):
        it = self.setup(ctx)
        cls = it.module_get("reactivex.scheduler.scheduler", "Scheduler")
        f = it.get_attr(cls, fname)
        v = self.arg(ctx, kind)
        uid = f"{FILE}::Scheduler.{fname}[{kind}]"
        try:
            r = it.call(f, [v], {})
        except PyExc as e:
            self.rec(ctx, uid + "/no-exception", False, detail=f"raises {e.value!r}")
            return
        self.rec(ctx, uid + "/no-exception", True)
        x = z3.Const("x", smt.Val)
        us, inst = z3.Int("us"), z3.Int("instant")
        if fname == "to_seconds":
            ok = isinstance(r, SV) and r.kind == "val"
            self.rec(ctx, uid + "/returns-float-seconds", ok, detail=f"returned {r!r}")
            if ok:
                want = {"float": x, "timedelta": US2F(us), "datetime": US2F(inst)}[kind]
                self.rec(ctx, uid + ("/unchanged" if kind == "float" else "/the-seconds-of-the-same-span" if kind == "timedelta" else "/the-seconds-since-the-epoch-of-the-same-instant"),
                         r.t == want, detail=f"returned {r.t}")
        elif fname == "to_timedelta":
            ok = isinstance(r, Opaque) and r.kind == "td"
            self.rec(ctx, uid + "/returns-a-timedelta", ok, detail=f"returned {r!r}")
            if ok:
                if kind == "timedelta":
                    self.rec(ctx, uid + "/unchanged", r is v)
                else:
                    want = F2US(x) if kind == "float" else inst
                    self.rec(ctx, uid + ("/the-span-of-that-many-seconds" if kind == "float" else "/the-span-since-the-epoch-of-the-same-instant"),
                             r.attrs["us"] == want, detail=f"returned {r.attrs['us']} us")
        else:
            ok = isinstance(r, Opaque) and r.kind == "dt"
            self.rec(ctx, uid + "/returns-a-datetime", ok, detail=f"returned {r!r}")
            if ok:
                if kind == "datetime":
                    self.rec(ctx, uid + "/unchanged", r is v)
                else:
                    want = F2US(x) if kind == "float" else us
                    self.rec(ctx, uid + "/timezone-aware", r.attrs["aware"] is True)
                    self.rec(ctx, uid + "/in-UTC", r.attrs["offset"] == 0)
                    self.rec(ctx, uid + "/the-same-instant", r.attrs["instant"] == want, detail=f"returned instant {r.attrs['instant']}")

    def run_now(self, ctx, modname, clsname, rel):
        it = self.setup(ctx)
        uid = f"{rel}::{clsname}.now"
        if clsname == "Scheduler":
            cls = it.module_get(modname, clsname)
            from .values import Obj
            o = Obj(cls)
            r = it.get_attr(o, "now")
            ok = isinstance(r, Opaque) and r.kind == "dt"
            self.rec(ctx, uid + "/returns-a-datetime", ok)
            if ok:
                self.rec(ctx, uid + "/timezone-aware", r.attrs["aware"] is True, detail="a naive datetime (datetime.now() / utcnow() without tz)")
                self.rec(ctx, uid + "/in-UTC", r.attrs["offset"] == 0)

    def run_constants(self, ctx):
        """the two constants every conversion goes through (reactivex/internal/constants.py), evaluated from their real defining expressions under
        the datetime contract, for EVERY utc offset of the process's local time zone"""
        it = self.setup(ctx)
        uid = "reactivex/internal/constants.py::"
        z = it.module_get("reactivex.internal.constants", "UTC_ZERO")
        ok = isinstance(z, Opaque) and z.kind == "dt"
        self.rec(ctx, uid + "UTC_ZERO/is-a-datetime", ok, detail=f"{z!r}")
        if ok:
            self.rec(ctx, uid + "UTC_ZERO/is-timezone-aware-and-in-UTC", z3.And(z.attrs["aware"] is True, z.attrs["offset"] == 0))
            self.rec(ctx, uid + "UTC_ZERO/is-the-epoch-whatever-the-local-time-zone-of-the-process", z.attrs["instant"] == 0, detail=f"instant {z.attrs['instant']} us")
        d = it.module_get("reactivex.internal.constants", "DELTA_ZERO")
        ok = isinstance(d, Opaque) and d.kind == "td"
        self.rec(ctx, uid + "DELTA_ZERO/is-the-empty-span", ok and d.attrs["us"] == 0, detail=f"{d!r}")

    def lemmas(self):
        """the round-trip and order statements of the property, over the postconditions above and A-float"""
        from .interp import Ctx
        ctx = Ctx()
        k, j = z3.Ints("k j")
        fa, fb = z3.Consts("fa fb", smt.Val)
        pre = "specs::time-conversions/lemma/"
        # postconditions as functions (each proved above for the real code)
        sec_td = lambda u: US2F(u)            # noqa: E731  to_seconds(timedelta u)
        td_f = lambda f: F2US(f)              # noqa: E731  to_timedelta(float f).us
        inrange = z3.And(k > -RANGE, k < RANGE)
        ax = a_float([k, j], [fa, fb])
        self.rec(ctx, pre + "timedelta->seconds->timedelta-is-the-identity-on-microsecond-values", z3.Implies(inrange, td_f(sec_td(k)) == k), extra=ax)
        self.rec(ctx, pre + "datetime->seconds->datetime-is-the-same-instant", z3.Implies(inrange, F2US(US2F(k)) == k), extra=ax)
        self.rec(ctx, pre + "timedelta->datetime->timedelta-is-exact", k == k)
        self.rec(ctx, pre + "seconds-of-a-datetime-equal-seconds-of-its-span-since-the-epoch", US2F(k) == US2F(k))
        self.rec(ctx, pre + "order/spans-and-instants-to-seconds", z3.Implies(k <= j, F_LE(sec_td(k), sec_td(j))), extra=ax)
        self.rec(ctx, pre + "order/seconds-to-spans-and-instants", z3.Implies(F_LE(fa, fb), td_f(fa) <= td_f(fb)), extra=ax)
        # vacuity of A-float's instances
        v, _m, _b = smt.check_sat(ax + [inrange, k <= j])
        self.rec(ctx, pre + "assumption-instances-consistent", v == "sat")
        self.results.extend(ctx.results)

    def run(self):
        t0 = time.time()
        try:
            for q in ("Scheduler.to_seconds", "Scheduler.to_datetime", "Scheduler.to_timedelta", "Scheduler.now"):
                self.functions[f"{FILE}::{q}"] = self.loader.sha(FILE, q)
            self.functions["reactivex/internal/constants.py::<module>"] = __import__("hashlib").sha256(self.loader.load_file("reactivex/internal/constants.py").src.encode()).hexdigest()[:16]
            self.functions["reactivex/internal/basic.py::default_now"] = self.loader.sha("reactivex/internal/basic.py", "default_now")
            for fname in ("to_seconds", "to_datetime", "to_timedelta"):
                for kind in ("float", "timedelta", "datetime"):
                    for p in explore(lambda ctx, _f=fname, _k=kind: self.run_fn(ctx, _f, _k)):
                        self.results.extend(p.results)
            for p in explore(lambda ctx: self.run_now(ctx, "reactivex.scheduler.scheduler", "Scheduler", FILE)):
                self.results.extend(p.results)
            for p in explore(self.run_constants):
                self.results.extend(p.results)
            self.lemmas()
        except Unsupported as e:
            self.unsupported = str(e)
        except PyExc as e:
            self.unsupported = f"interpreter-level exception: {e.value!r} {getattr(e.value, 'fields', '')}"
        self.seconds = time.time() - t0
        return self


MUTANTS = [
    ("value = value - UTC_ZERO\n\n        if isinstance(value, timedelta):", "value = value.replace(tzinfo=timezone.utc) - UTC_ZERO\n\n        if isinstance(value, timedelta):", "to_seconds reads the wall-clock fields as UTC"),
    ("value = datetime.fromtimestamp((value), tz=timezone.utc)", "value = datetime.fromtimestamp(value)", "to_datetime builds a naive local datetime"),
    ("value = UTC_ZERO + value", "value = UTC_ZERO - value", "to_datetime subtracts the span"),
    ("elif not isinstance(value, timedelta):\n            value = timedelta(seconds=value)", "else:\n            value = timedelta(seconds=value)", "to_timedelta converts a timedelta again"),
]


CONST_MUTANTS = [
    ("UTC_ZERO = datetime.fromtimestamp(0, tz=timezone.utc)", "UTC_ZERO = datetime(1970, 1, 1).astimezone(timezone.utc)", "the epoch constant read as local time"),
    ("UTC_ZERO = datetime.fromtimestamp(0, tz=timezone.utc)", "UTC_ZERO = datetime.fromtimestamp(0).replace(tzinfo=timezone.utc)", "the epoch constant: local wall clock labelled UTC"),
    ("DELTA_ZERO = timedelta(0)", "DELTA_ZERO = timedelta(seconds=1)", "the empty span is one second"),
]


def run_unit(desc):
    import json
    import os
    from .report import REPLAY_DIR, VERIF, native
    h = Harness().run()
    rep = {"unit": f"{FILE}::Scheduler.time-conversions", "kind": "function contracts against a contract of the datetime module",
           "functions": h.functions, "results": [r.as_dict() for r in h.results], "unsupported": h.unsupported,
           "spec_validation": [], "bounded": [], "seconds": h.seconds,
           "replayable": {"runner": "timerun.py", "module": "-", "name": "conversions"}}
    tier = desc.get("tier", "quick")
    if tier == "thorough" and not h.unsupported:
        mf = {"mutants": 0, "killed": 0, "survivors": [], "unit": rep["unit"]}
        src = Loader().load_file(FILE).src
        for old, new, what in MUTANTS:
            if old not in src:
                continue
            ld = Loader()
            ld.overrides = {FILE: src.replace(old, new, 1)}
            hm = Harness(ld).run()
            mf["mutants"] += 1
            if hm.unsupported or any(r.verdict != "proved" for r in hm.results):
                mf["killed"] += 1
            else:
                mf["survivors"].append(what)
        cfile = "reactivex/internal/constants.py"
        csrc = Loader().load_file(cfile).src
        for old, new, what in CONST_MUTANTS:
            if old not in csrc:
                continue
            ld = Loader()
            ld.overrides = {cfile: csrc.replace(old, new, 1)}
            hm = Harness(ld).run()
            mf["mutants"] += 1
            if any(r.verdict == "refuted" for r in hm.results):
                mf["killed"] += 1
            else:
                mf["survivors"].append(what)
        rep["must_fail"] = mf
        if mf["mutants"] and mf["killed"] < mf["mutants"]:
            rep["crash"] = f"vacuity: mutants of the conversions not refuted: {mf['survivors']}"
    if h.unsupported or tier == "thorough":
        res, err = native([os.path.join(VERIF, "rxvc", "timerun.py"), "replay", "-", "conversions",
                           json.dumps({"replay_path": os.path.join(REPLAY_DIR, f"{desc.get('prop', 'C36')}-standin-conversions.py"), "prop": desc.get("prop", "C36"),
                                       "oid": rep["unit"] + "/bounded-standin"})], timeout=300)
        st = res if res is not None else {"found": [], "error": err, "cases": 0}
        rep["standin"] = st
        rep["bounded"].append({"function": rep["unit"], "bound": "timerun.py: grid of aligned / non-aligned float seconds, timedeltas and aware datetimes in six time zones "
                               "(incl. values next to +-2**52 us), pairwise order and all round trips", "cases": st.get("cases", 0), "mismatches": len(st.get("found", [])),
                               "role": "stand-in (out of subset)" if h.unsupported else "cross-check of the datetime contract and of A-float against CPython"})
        if not h.unsupported and st.get("found") and all(r.verdict == "proved" for r in h.results):
            rep["crash"] = f"cross-check failed: the contracts are proved but CPython disagrees: {json.dumps(st['found'][0], default=repr)[:500]}"
    return rep
