"""Native runner for multi-source combinators (replay of K1 counter-models; bounded cross-check).

Runs under /venv/bin/python.  The real operator is built from the contract's `witness` expression over hot,
lock-free sources named as in the contract's `sources`; every interleaving of the sources' events up to a
length bound (each source obeying the notification grammar) is fed to it and, step by step, to the spec
machine of the contract executed natively (the handlers take the source index).  BOUNDED.

usage: multirun.py replay <contracts module> <contract name> '<json opts>'
       multirun.py case <contracts module> <contract name> '<json case>'     (exit 1 when real != spec)
"""
from __future__ import annotations

import itertools
import json
import os
import sys
import time

VERIF = os.path.dirname(os.path.dirname(os.path.abspath(__file__)))
if VERIF not in sys.path:
    sys.path.insert(0, VERIF)
REPO = os.environ.get("RXVC_REPO", "/repo")
if REPO not in sys.path:
    sys.path.insert(0, REPO)

from rxvc import diffrun  # noqa: E402

VALUES = [None, 0, 1, "a"]


def hot_source():
    from reactivex import Observable
    from reactivex.disposable import Disposable

    class Hot(Observable):
        def __init__(self):
            self.observers = []
            super().__init__(self._sub)

        sync, rec = (), None

        def _sub(self, observer, scheduler=None):
            self.observers.append(observer)
            # events this source delivers from INSIDE its subscribe call (a cold synchronous source, a subject that replays)
            for ev in self.sync:
                self.rec.mark()
                try:
                    self.emit(ev)
                except Exception as e:  # noqa: BLE001
                    self.rec.steps[-1].append(("ESCAPED", type(e).__name__, str(e)[:80]))
            return Disposable(lambda: self.observers.remove(observer) if observer in self.observers else None)

        def emit(self, ev):
            for o in list(self.observers):
                if ev[0] == "N":
                    o.on_next(ev[1])
                elif ev[0] == "E":
                    o.on_error(ev[1])
                else:
                    o.on_completed()
    return Hot()


def run_real(c, params, timeline, sync=0):
    """sync = k: the first k events (all of ONE source) are delivered from inside that source's subscribe call"""
    import reactivex
    from reactivex import operators as ops
    env = {"ops": ops, "reactivex": reactivex, "rx": reactivex}
    env.update({k: v for k, v in params.items()})
    srcs = [hot_source() for _ in c.sources]
    env.update(dict(zip(c.sources, srcs)))
    rec = diffrun.Recorder()
    if sync:
        srcs[timeline[0][0]].sync = [ev for (_i, ev) in timeline[:sync]]
        srcs[timeline[0][0]].rec = rec
        timeline = timeline[sync:]
    try:
        obs = eval(c.witness, env)
    except Exception as e:  # noqa: BLE001
        return [[("RAISED", type(e).__name__)]]
    obs.subscribe(rec.on_next, rec.on_error, rec.on_completed)
    for (i, ev) in timeline:
        rec.mark()
        try:
            srcs[i].emit(ev)
        except Exception as e:  # noqa: BLE001
            rec.steps[-1].append(("ESCAPED", type(e).__name__, str(e)[:80]))
    return diffrun.truncate(rec.steps)


def run_spec(c, params, timeline):
    cls = diffrun.spec_class(c)
    s = cls.__new__(cls)
    for k, v in params.items():
        setattr(s, k, v)
    rec = diffrun.Recorder()
    # structural primitives of the spec's `out` that have no downstream-visible effect
    rec.subscribe = lambda *a, **k: None
    rec.dispose_source = lambda *a, **k: None
    rec.dispose_previous = lambda *a, **k: None
    rec.subscribe_source = lambda *a, **k: None
    if hasattr(s, "init"):
        s.init()
    if hasattr(s, "on_subscribe"):
        s.on_subscribe(rec)
    done = False
    for (i, ev) in timeline:
        rec.mark()
        if done or (hasattr(s, "done") and s.done()):
            done = True
            continue
        if ev[0] == "N":
            s.on_next(rec, i, ev[1])
        elif ev[0] == "E":
            s.on_error(rec, i, ev[1])
        else:
            s.on_completed(rec, i)
    return diffrun.truncate(rec.steps)


def timelines(n_sources, max_len, values):
    """interleavings in which every source obeys the grammar"""
    evs = [(i, ("N", v)) for i in range(n_sources) for v in values]
    evs += [(i, ("E", diffrun.Boom(f"src{i}"))) for i in range(n_sources)]
    evs += [(i, ("C",)) for i in range(n_sources)]

    def rec(prefix, closed):
        yield prefix
        if len(prefix) == max_len:
            return
        for (i, ev) in evs:
            if i in closed:
                continue
            yield from rec(prefix + [(i, ev)], closed | ({i} if ev[0] != "N" else set()))
    yield from rec([], frozenset())


def encode_case(params, tl):
    return {"params": diffrun.encode_params(None, params),
            "timeline": [[i, ev[0], repr(ev[1]) if len(ev) > 1 else None] for (i, ev) in tl]}


def decode_case(c, case):
    params = diffrun.decode_params(c, case["params"])
    tl = []
    for (i, k, v) in case["timeline"]:
        if k == "N":
            tl.append((i, ("N", eval(v, {}))))
        elif k == "E":
            tl.append((i, ("E", diffrun.Boom(f"src{i}"))))
        else:
            tl.append((i, ("C",)))
    return params, tl


def search(c, max_len=4, budget_s=60.0, pin=None):
    t0 = time.time()
    cases = 0
    vals = VALUES[:3] if max_len >= 4 else VALUES
    for tl in timelines(len(c.sources), max_len, vals):
        for params in diffrun.param_grid(c, pin):
            if time.time() - t0 > budget_s:
                return cases, None
            cases += 1
            real = run_real(c, params, tl)
            spec = run_spec(c, params, tl)
            if real != spec:
                return cases, {"case": encode_case(params, tl), "real": diffrun.show(real), "spec": diffrun.show(spec)}
            # the same events, the leading ones of ONE source delivered from inside its subscribe call
            k = 0
            while k < len(tl) and tl[k][0] == tl[0][0]:
                k += 1
                cases += 1
                real = run_real(c, params, tl, sync=k)
                if real != spec:
                    case = encode_case(params, tl)
                    case["sync"] = k
                    return cases, {"case": case, "real": diffrun.show(real), "spec": diffrun.show(spec)}
    return cases, None


REPLAY_TEMPLATE = '''#!/venv/bin/python
"""Replay of a counter-example found for property {prop}.
obligation: {oid}
The real operator disagrees with its specification on this interleaving of its sources' events.
Exit status 1 = violation reproduced on the tree under RXVC_REPO (default /repo)."""
import subprocess, sys
r = subprocess.run(["/venv/bin/python", "{verif}/rxvc/multirun.py", "case", {mod!r}, {name!r}, {case!r}])
sys.exit(r.returncode)
'''


def main(argv):
    mode, modname, name = argv[:3]
    c = diffrun.contract_of(modname, name)
    if mode == "case":
        params, tl = decode_case(c, json.loads(argv[3]))
        real, spec = run_real(c, params, tl, sync=json.loads(argv[3]).get("sync", 0)), run_spec(c, params, tl)
        print("operator :", c.witness, json.loads(argv[3])["params"])
        print("events   :", [(c.sources[i], ev[0]) + ((ev[1],) if ev[0] == "N" else ()) for (i, ev) in tl])
        print("real     :", real)
        print("expected :", spec)
        sys.exit(1 if real != spec else 0)
    opts = json.loads(argv[3]) if len(argv) > 3 else {}
    cases, found = search(c, opts.get("max_len", 4), opts.get("budget_s", 60), opts.get("pin"))
    res = {"cases": cases, "found": [found] if found else [], "mismatches": 1 if found else 0}
    if found and "replay_path" in opts:
        os.makedirs(os.path.dirname(opts["replay_path"]), exist_ok=True)
        with open(opts["replay_path"], "w") as f:
            f.write(REPLAY_TEMPLATE.format(prop=opts.get("prop", "?"), oid=opts.get("oid", "?"), verif=VERIF, mod=modname,
                                           name=name, case=json.dumps(found["case"])))
        res["replay"] = opts["replay_path"]
    print(json.dumps(res, default=repr))


if __name__ == "__main__":
    main(sys.argv[1:])
