"""C25 - ScheduledDisposable: function contracts on the real class, against the contracts of the scheduler (opaque: schedule(a)
returns, and runs `a` later, any number of pending actions in any order, each once) and of SingleAssignmentDisposable (C26, proved:
whatever it holds is disposed exactly once however often and from wherever dispose() is called).

  __init__(scheduler, d)   the object keeps a SingleAssignmentDisposable that holds exactly d (so the C26 contract applies to d),
                           nothing is scheduled or disposed at construction;
  dispose()                schedules exactly ONE action on the given scheduler and touches nothing else - the wrapped resource is
                           not disposed by the calling thread; the number of earlier dispose() calls does not matter;
  the scheduled action     whenever it runs - first, again, after other actions of earlier / later dispose() calls - it calls
                           dispose() on that SingleAssignmentDisposable and on nothing else.  With C26 that is: the wrapped resource
                           is disposed exactly once, on the scheduler, as soon as one action ran, for any number of dispose() calls;
  is_disposed              is the SingleAssignmentDisposable's flag: true exactly from the first action on.
The real SingleAssignmentDisposable runs here too (2 dispose() calls, 2 actions, both orders): the wrapped resource's dispose is
observed exactly once - a cross-check of the composition inside the same symbolic run.
"""
from __future__ import annotations

import time

import z3

from . import smt
from .interp import Interp, World, explore
from .loader import Loader, all_functions
from .refine import Result
from .values import Closure, Native, Obj, Opaque, PyExc, Unsupported

FILE = "reactivex/disposable/scheduleddisposable.py"


class SDWorld(World):
    def __init__(self):
        super().__init__()
        self.log = []

    def truthy(self, it, o):
        if o.kind == "resource":
            # the wrapped resource is somebody else's object: it may be falsy (an empty CompositeDisposable has len() 0); the same answer every time
            if not hasattr(self, "_truth"):
                self._truth = it.ctx.choose(2, "the wrapped resource is truthy / falsy") == 0
            return self._truth
        return True

    def call(self, it, o, method, args, kwargs):
        if o.kind == "scheduler" and method in ("schedule", "schedule_relative", "schedule_absolute"):
            self.log.append(("schedule", method, list(args), dict(kwargs)))
            return Opaque("disposable", f"scheduled#{len(self.log)}")
        if o.kind == "resource" and method == "dispose":
            self.log.append(("dispose", o))
            return None
        if o.kind in ("lock", "logger"):
            return None
        return super().call(it, o, method, args, kwargs)


class SchedDispHarness:
    def __init__(self, loader=None):
        self.loader = loader or Loader()
        self.results = []
        self.unsupported = None
        self.functions = {}

    def rec(self, ctx, oid, goal, detail=""):
        t0 = time.time()
        if isinstance(goal, bool):
            goal = z3.BoolVal(goal)
        v, m, b = smt.prove(ctx.pc, goal)
        ctx.results.append(Result(oid, v, b, smt.model_to_dict(m), list(ctx.branch_log), detail, time.time() - t0, "post"))

    def scenario(self, ctx):
        w = self.w = SDWorld()
        it = Interp(self.loader, ctx, w)
        it.externals["threading.RLock"] = Native("RLock", lambda it_, a, k: Opaque("lock", "lock", reentrant=True))
        uid = f"{FILE}::ScheduledDisposable"
        sched = Opaque("scheduler", "scheduler")
        res = Opaque("resource", "wrapped")
        cls = it.module_get("reactivex.disposable.scheduleddisposable", "ScheduledDisposable")
        o = it.call(cls, [sched, res], {})
        inner = o.fields.get("disposable") if isinstance(o, Obj) else None
        ok_init = (isinstance(inner, Obj) and inner.cls.name == "SingleAssignmentDisposable" and inner.fields.get("current") is res
                   and inner.fields.get("is_disposed") is False and o.fields.get("scheduler") is sched)
        self.rec(ctx, uid + ".__init__/keeps-a-SingleAssignmentDisposable-that-holds-exactly-the-resource", ok_init,
                 detail="the once-only guarantee for the wrapped resource is the SingleAssignmentDisposable contract (C26)")
        self.rec(ctx, uid + ".__init__/schedules-and-disposes-nothing", not w.log)
        if not ok_init:
            return
        n_calls = 1 + ctx.choose(2, "dispose() is called a second time before any action ran")
        actions = []
        for k in range(n_calls):
            w.log.clear()
            try:
                it.call(it.get_attr(o, "dispose"), [], {})
            except PyExc as e:
                self.rec(ctx, uid + f".dispose#{k}/no-exception", False, detail=repr(e.value))
                return
            sch = [e for e in w.log if e[0] == "schedule"]
            self.rec(ctx, uid + f".dispose#{k}/schedules-exactly-one-action-on-the-given-scheduler", len(sch) == 1 and sch[0][1] == "schedule" and len(sch[0][2]) >= 1)
            self.rec(ctx, uid + f".dispose#{k}/the-calling-thread-disposes-nothing-itself", not [e for e in w.log if e[0] == "dispose"])
            if len(sch) != 1:
                return
            actions.append(sch[0][2][0])
            self.rec(ctx, uid + f".dispose#{k}/is_disposed-stays-false-until-an-action-runs", it.truth(it.get_attr(o, "is_disposed"), "is_disposed") is False)
        # the scheduler runs the pending actions in any order; an action may also run twice (a scheduler contract violation that
        # the object must survive is NOT assumed: each once)
        order = list(range(len(actions)))
        if len(actions) == 2 and ctx.choose(2, "the second action runs first") == 1:
            order.reverse()
        total = 0
        for j, idx in enumerate(order):
            w.log.clear()
            before = dict(inner.fields)
            try:
                it.call(actions[idx], [sched, None], {})
            except PyExc as e:
                self.rec(ctx, uid + f".action#{idx}/no-exception-escapes-into-the-scheduler", False, detail=repr(e.value))
                return
            disp = [e for e in w.log if e[0] == "dispose"]
            total += len(disp)
            self.rec(ctx, uid + f".action[run {j}]/disposes-through-the-SingleAssignmentDisposable-only",
                     inner.fields.get("is_disposed") is True and all(e[1] is res for e in disp) and not [e for e in w.log if e[0] == "schedule"],
                     detail=f"the action must call dispose() on the SingleAssignmentDisposable kept at construction (state before: {before})")
            self.rec(ctx, uid + f".action[run {j}]/is_disposed-is-true-from-the-first-action-on", it.truth(it.get_attr(o, "is_disposed"), "is_disposed") is True)
        self.rec(ctx, uid + "/the-wrapped-resource-is-disposed-exactly-once-whatever-the-number-of-dispose-calls-and-the-order-of-the-actions", total == 1,
                 detail=f"{n_calls} dispose() call(s), actions run in order {order}: the wrapped resource was disposed {total} time(s)")
        if isinstance(o, Obj):
            extra = set(o.fields) - {"scheduler", "disposable", "lock"}
            self.rec(ctx, uid + "/keeps-no-disposal-state-of-its-own", not extra,
                     detail=f"additional fields {sorted(extra)}: a flag that is tested in dispose() but set by the action lets every dispose() call made "
                            f"before the first action queue another disposal")

    def run(self):
        t0 = time.time()
        try:
            node = self.loader.find(FILE, "ScheduledDisposable")
            for q, n in all_functions(node, "ScheduledDisposable"):
                self.functions[f"{FILE}::{q}"] = self.loader.sha(FILE, q)
            for p in explore(self.scenario):
                self.results.extend(p.results)
        except Unsupported as e:
            self.unsupported = str(e)
        except PyExc as e:
            self.unsupported = f"interpreter-level exception: {e.value!r} {getattr(e.value, 'fields', '')}"
        self.seconds = time.time() - t0
        return self


MUTANTS = {
    "disposes on the calling thread": ("        self.scheduler.schedule(action)", "        self.disposable.dispose()\n        self.scheduler.schedule(action)"),
    "wraps nothing": ("        self.disposable.disposable = disposable\n", ""),
    "action disposes the resource directly": ("            self.disposable.dispose()\n", "            d = self.disposable.disposable\n            if d is not None:\n                d.dispose()\n"),
}


def must_fail():
    out = {"mutants": 0, "killed": 0, "survivors": []}
    src = Loader().load_file(FILE).src
    for name, (a, b) in MUTANTS.items():
        if a not in src:
            continue
        ld = Loader()
        ld.overrides = {FILE: src.replace(a, b, 1)}
        h = SchedDispHarness(ld).run()
        out["mutants"] += 1
        if h.unsupported or any(r.verdict == "refuted" for r in h.results):
            out["killed"] += 1
        else:
            out["survivors"].append(name)
    return out


def run_unit(desc):
    h = SchedDispHarness().run()
    rep = {"unit": f"{FILE}::ScheduledDisposable", "kind": "function contracts against the scheduler and SingleAssignmentDisposable contracts",
           "functions": h.functions, "results": [r.as_dict() for r in h.results], "unsupported": h.unsupported, "spec_validation": [], "bounded": [],
           "replayable": {"runner": "scheddisprun.py", "module": "-", "name": "ScheduledDisposable"}}
    if desc.get("tier") == "thorough" and not h.unsupported:
        mf = must_fail()
        rep["must_fail"] = dict(mf, unit=rep["unit"])
        if mf["mutants"] and mf["killed"] < mf["mutants"]:
            rep["crash"] = f"vacuity: must-fail mutants survived: {mf['survivors']}"
    return rep
