"""C22: contracts for ReplaySubject, discharged on the real code (sequential histories; what a ScheduledObserver does with
what it is given is C32).

Abstract state: the retained queue is a SEQUENCE of (time, value) records with non-decreasing times (they are appended
with the scheduler's clock, which is monotone), `buffer_size` B and `window` W are arbitrary (None = no limit), the
subscribers are an arbitrary list of scheduled observers.  Time is integer ticks (A-time).
  __init__        buffer_size None -> unlimited; window None -> unlimited, else converted with the scheduler; empty queue.
  _trim(now)      both loops are cut at their invariants (ONE arbitrary iteration each, from an arbitrary queue):
                  the size loop removes the HEAD and only while more than B records are retained, and stops exactly when
                  at most B are left; the age loop removes the HEAD and only while it is older than W at `now`, and stops
                  exactly when the queue is empty or its head is young enough; nothing else is touched.  Hence after _trim
                  the queue is the longest suffix with at most B records whose head is within the window - "the last
                  buffer_size values whose age is within the window" (ages decrease along the queue).
  _on_next_core   under the subject's lock: snapshots the subscribers, reads the clock once, appends exactly (now, value) at
                  the TAIL and trims with that `now`; then, outside the lock, gives the value to every subscriber of the
                  snapshot, in order, and activates each.
  _subscribe_core under the lock, in this order: refuses when disposed; trims with the current time; registers a new
                  ScheduledObserver(subject's scheduler, observer); replays - the loop is cut: ONE arbitrary iteration gives
                  exactly that record's value to exactly the new observer, nothing else; then the stored error, else
                  completion if stopped; after the lock: activates it; returns a disposable that unregisters it.  Since
                  registration + replay and (append + snapshot) are critical sections of the same lock, a value is either
                  replayed or forwarded to a given subscriber, never both and never neither: nothing duplicated, lost or
                  reordered.
  _on_error_core / _on_completed_core   snapshot and clear the subscribers (and keep the error) under the lock, trim, then
                  give the terminal to every subscriber of the snapshot and activate it.
  RemovableDisposable.dispose / ReplaySubject.dispose   stop that observer and unregister it / clear the queue and dispose.
"""
from __future__ import annotations

import time

import z3

from . import smt
from .interp import NOTSET, Interp, World, explore, _Break, _Continue
from .loader import Loader, all_functions
from .refine import Result
from .values import SV, BoolSV, BoundMethod, Closure, IntSV, ListObj, Native, Obj, Opaque, PathEnd, PyExc, Unsupported, ValSV
from .catchsched import conj, same

RFILE = "reactivex/subject/replaysubject.py"
BIG = 10 ** 18
TMAX = 10 ** 15


class PWorld(World):
    def __init__(self, h):
        super().__init__()
        self.h = h
        self.log = []
        self.depth = 0
        self.clock = None
        self.n = 0

    def enter(self, it, o):
        if o.kind == "lock":
            self.depth += 1
            self.log.append(("acquire", self.depth))
            return o
        return super().enter(it, o)

    def exit(self, it, o):
        if o.kind == "lock":
            self.depth -= 1
            self.log.append(("release", self.depth))
            return
        return super().exit(it, o)

    def getattr(self, it, o, name):
        if o.kind == "scheduler" and name == "now":
            t = it.ctx.fresh("now", "int")
            it.ctx.assume(z3.And(t.t >= (self.clock if self.clock is not None else 0), t.t <= TMAX))
            self.clock = t.t
            self.log.append(("now", t.t, self.depth))
            return t
        if o.kind == "qitem":
            return o.attrs[name]
        return super().getattr(it, o, name)

    def broadcast(self, it, lst, method, args):
        self.log.append(("broadcast", it.seq_term(lst), method, list(args), self.depth))

    def broadcast_multi(self, it, lst, calls):
        self.log.append(("broadcast*", it.seq_term(lst), [(m, list(a)) for m, a in calls], self.depth))

    def call(self, it, o, method, args, kwargs):
        if o.kind == "scheduler":
            if method in ("to_timedelta", "to_seconds", "to_datetime"):
                return args[0]
            raise Unsupported(f"scheduler.{method}")
        if o.kind == "so":
            self.log.append(("so", o, method, list(args), self.depth))
            return None
        if o.kind in ("lock", "logger"):
            return None
        return super().call(it, o, method, args, kwargs)


class ReplayHarness:
    def __init__(self, loader=None):
        self.loader = loader or Loader()
        self.results = []
        self.unsupported = None
        self.functions = {}

    def rec(self, ctx, oid, goal, detail=""):
        t0 = time.time()
        if isinstance(goal, bool):
            goal = z3.BoolVal(goal)
        v, m, b = smt.prove(ctx.pc, goal)
        ctx.results.append(Result(oid, v, b, smt.model_to_dict(m), list(ctx.branch_log), detail, time.time() - t0, "post"))

    # -- records -------------------------------------------------------------------------------------------
    def qitem(self, it, t):
        """a QueueItem known by its term: (interval, value)"""
        return Opaque("qitem", "item", term=t, interval=IntSV(smt.val2int(smt.tup2_0(t))), value=ValSV(smt.tup2_1(t)))

    def setup(self, ctx, construct=False):
        w = self.w = PWorld(self)
        it = Interp(self.loader, ctx, w)
        base = it.elem_from_term

        def elem_from_term(kind, t):
            if kind == "qitem":
                return self.qitem(it, t)
            if kind == "ref:so":
                return Opaque("so", "some_so", term=t)
            return base(kind, t)
        it.elem_from_term = elem_from_term
        self.sched = Opaque("scheduler", "sched")
        self.made = []

        def hook(it_, f, args, kwargs):
            nm = getattr(f, "name", None)
            if nm == "ScheduledObserver" and hasattr(f, "node"):
                so = Opaque("so", f"new_so#{len(self.made)}", term=it_.ctx.fresh("so", "val").t)
                self.made.append((so, list(args)))
                return so
            if nm == "QueueItem" and hasattr(f, "node"):
                vals = dict(zip(["interval", "value"], args))
                vals.update(kwargs)
                t = it_.to_val((vals["interval"], vals["value"]))
                it_.ctx.assume(smt.val2int(smt.tup2_0(t)) == it_.to_int(vals["interval"]))
                return self.qitem(it_, t)
            return NOTSET
        it.call_hook = hook
        # the NamedTuple base and timedelta.max are library facts
        it.externals["typing.NamedTuple"] = it.externals["builtins.object"]
        it.externals["datetime.timedelta"] = Opaque("external_class", "timedelta", max=BIG)
        it.externals["threading.RLock"] = Native("RLock", lambda it_, a, k: Opaque("lock", "lock", reentrant=True))
        self.cls = it.module_get("reactivex.subject.replaysubject", "ReplaySubject")
        if construct:
            return it
        o = self.obj = Obj(self.cls)
        B = ctx.fresh("buffer_size", "int")
        W = ctx.fresh("window", "int")
        ctx.assume(z3.And(B.t >= 0, W.t >= 0))
        self.B, self.W = B, W
        q = ctx.fresh("queue", "seq").t
        self.observers = ListObj(term=ctx.fresh("observers", "seq").t, elem="ref:so")
        o.fields.update({"buffer_size": B, "_window": W, "scheduler": self.sched, "lock": Opaque("lock", "subject.lock", reentrant=True),
                         "queue": self.deque(q), "observers": self.observers, "is_stopped": False, "is_disposed": False, "exception": None})
        return it

    def deque(self, term):
        l = ListObj(term=term, elem="qitem")
        l.is_deque = True
        return l

    def times_ok(self, it, q):
        """records carry times in [0, TMAX], non-decreasing along the queue, none later than the clock"""
        i, j = z3.Int("qi"), z3.Int("qj")
        tm = lambda k: smt.val2int(smt.tup2_0(q[k]))  # noqa: E731
        return z3.ForAll([i, j], z3.Implies(z3.And(0 <= i, i <= j, j < z3.Length(q)), z3.And(0 <= tm(i), tm(i) <= tm(j), tm(j) <= TMAX)))

    # -- __init__ ----------------------------------------------------------------------------------------------
    def run_init(self, ctx):
        it = self.setup(ctx, construct=True)
        uid = f"{RFILE}::ReplaySubject.__init__"
        b_none = ctx.choose(2, "buffer_size is None") == 0
        w_none = ctx.choose(2, "window is None") == 0
        b, wnd = ctx.fresh("b", "int"), ctx.fresh("w", "int")
        o = it.call(self.cls, [None if b_none else b, None if w_none else wnd, self.sched], {})
        q = o.fields.get("queue")
        self.rec(ctx, uid + "/starts-with-nothing-retained-and-nobody-subscribed", isinstance(q, ListObj) and not q.symbolic and not q.items
                 and isinstance(o.fields.get("observers"), ListObj) and not o.fields["observers"].items)
        maxsize = it.externals["sys.maxsize"] if "sys.maxsize" in it.externals else None
        self.rec(ctx, uid + "/buffer-size", (o.fields.get("buffer_size") == maxsize) if b_none else same(o.fields.get("buffer_size"), b))
        self.rec(ctx, uid + "/window", (o.fields.get("_window") == BIG) if w_none else same(o.fields.get("_window"), wnd))
        self.rec(ctx, uid + "/uses-the-given-scheduler", o.fields.get("scheduler") is self.sched)

    # -- _trim -------------------------------------------------------------------------------------------------
    def run_trim(self, ctx):
        it = self.setup(ctx)
        o, w = self.obj, self.w
        now = ctx.fresh("now", "int")
        ctx.assume(z3.And(now.t >= 0, now.t <= TMAX))
        self.trim_now = now
        it.loop_contracts = {("ReplaySubject._trim", 0): {"name": "size"}, ("ReplaySubject._trim", 1): {"name": "age"}}
        it.on_loop = self.on_loop_trim
        self.loops_seen = []
        it.call(it.get_attr(o, "_trim"), [now], {})
        self.rec(ctx, f"{RFILE}::ReplaySubject._trim/has-the-size-loop-then-the-age-loop", self.loops_seen == ["size", "age"], detail=f"{self.loops_seen}")

    def on_loop_trim(self, it, st, env, key, lc, iterable=None):
        """cut: the loop runs from an arbitrary retained queue; one iteration, then assume it is over"""
        ctx = it.ctx
        o = self.obj
        name = lc["name"]
        self.loops_seen.append(name)
        uid = f"{RFILE}::ReplaySubject._trim/{name}-loop"
        q0 = ctx.fresh(f"queue_{name}", "seq").t
        o.fields["queue"] = self.deque(q0)
        ctx.assume(self.times_ok(it, q0))
        now = self.trim_now
        obs0 = it.seq_term(o.fields["observers"])
        go = it.truth(it.eval(st.test, env), f"{name} loop continues")
        if name == "size":
            self.rec(ctx, uid + "/continues-exactly-while-more-than-buffer_size-are-retained", (z3.Length(q0) > self.B.t) if go else z3.Not(z3.Length(q0) > self.B.t))
        else:
            young = z3.Or(z3.Length(q0) == 0, now.t - smt.val2int(smt.tup2_0(q0[0])) <= self.W.t)
            self.rec(ctx, uid + "/continues-exactly-while-the-head-is-older-than-the-window", z3.Not(young) if go else young)
        if go:
            try:
                it.exec_block(st.body, env)
            except (_Break, _Continue):
                pass
            q1 = it.seq_term(o.fields["queue"])
            self.rec(ctx, uid + "/an-iteration-removes-exactly-the-head", z3.And(z3.Length(q0) > 0, q0 == z3.Concat(z3.Unit(q0[0]), q1)))
            self.rec(ctx, uid + "/touches-nothing-else", it.seq_term(o.fields["observers"]) == obs0)
        # the loop is over: continue after it from an arbitrary queue on which its condition is false
        q2 = ctx.fresh(f"queue_after_{name}", "seq").t
        o.fields["queue"] = self.deque(q2)
        ctx.assume(self.times_ok(it, q2))
        if name == "size":
            ctx.assume(z3.Length(q2) <= self.B.t)

    # -- on_next -----------------------------------------------------------------------------------------------
    def stub_trim(self, it):
        trims = []
        base = it.call_hook

        def hook(it_, f, args, kwargs):
            fn = f.func if isinstance(f, BoundMethod) else f
            if isinstance(fn, Closure) and fn.qualname == "ReplaySubject._trim":
                trims.append((list(args), self.w.depth, it_.seq_term(self.obj.fields["queue"])))
                self.w.log.append(("trim", list(args), self.w.depth))
                return None
            return base(it_, f, args, kwargs)
        it.call_hook = hook
        return trims

    def run_on_next(self, ctx):
        it = self.setup(ctx)
        o, w = self.obj, self.w
        uid = f"{RFILE}::ReplaySubject._on_next_core"
        trims = self.stub_trim(it)
        q0 = it.seq_term(o.fields["queue"])
        obs0 = it.seq_term(o.fields["observers"])
        v = ctx.fresh("value", "val")
        w.log.clear()
        it.call(it.get_attr(o, "_on_next_core"), [v], {})
        nows = [e for e in w.log if e[0] == "now"]
        self.rec(ctx, uid + "/reads-the-clock-exactly-once-under-the-lock", len(nows) == 1 and nows[0][2] == 1)
        if len(nows) != 1:
            return
        now = nows[0][1]
        ok = len(trims) == 1 and trims[0][1] == 1
        self.rec(ctx, uid + "/trims-once-under-the-lock-with-that-time", ok and same(trims[0][0][0], IntSV(now)))
        if ok:
            qt = trims[0][2]
            self.rec(ctx, uid + "/appends-exactly-(now, value)-at-the-tail-before-trimming",
                     z3.And(z3.Length(qt) == z3.Length(q0) + 1, qt == z3.Concat(q0, z3.Unit(qt[z3.Length(q0)])),
                            smt.val2int(smt.tup2_0(qt[z3.Length(q0)])) == now, smt.tup2_1(qt[z3.Length(q0)]) == v.t))
        bc = [e for e in w.log if e[0] in ("broadcast", "broadcast*")]
        self.rec(ctx, uid + "/gives-the-value-to-the-subscribers-snapshotted-under-the-lock-and-activates-each",
                 len(bc) == 2 and bc[0][0] == "broadcast" and bc[0][2] == "on_next" and len(bc[0][3]) == 1 and same(bc[0][3][0], v) is not False
                 and bc[1][2] == "ensure_active" and bc[0][4] == 0 and bc[1][4] == 0 and conj([bc[0][1] == obs0, bc[1][1] == obs0, same(bc[0][3][0], v)]),
                 detail=f"{[(e[0], e[2]) for e in bc]}")
        self.rec(ctx, uid + "/registers-nobody", it.seq_term(o.fields["observers"]) == obs0)

    # -- terminals ---------------------------------------------------------------------------------------------
    def run_terminal(self, ctx, which):
        it = self.setup(ctx)
        o, w = self.obj, self.w
        uid = f"{RFILE}::ReplaySubject.{which}"
        trims = self.stub_trim(it)
        obs0 = it.seq_term(o.fields["observers"])
        q0 = it.seq_term(o.fields["queue"])
        err = SV(ctx.fresh("error", "val").t, "val", tag="exc")
        w.log.clear()
        it.call(it.get_attr(o, which), [err] if which == "_on_error_core" else [], {})
        self.rec(ctx, uid + "/forgets-the-subscribers", z3.Length(it.seq_term(o.fields["observers"])) == 0)
        self.rec(ctx, uid + "/keeps-the-retained-values", len(trims) == 1 and trims[0][1] == 1 and trims[0][2] == q0)
        if which == "_on_error_core":
            self.rec(ctx, uid + "/remembers-the-error-for-late-subscribers", same(o.fields.get("exception"), err))
        bc = [e for e in w.log if e[0] in ("broadcast", "broadcast*")]
        want = "on_error" if which == "_on_error_core" else "on_completed"
        ok = len(bc) == 1 and bc[0][0] == "broadcast*" and [m for m, _a in bc[0][2]] == [want, "ensure_active"] and bc[0][3] == 0
        self.rec(ctx, uid + "/gives-the-terminal-to-every-subscriber-it-had-and-activates-it", conj([bc[0][1] == obs0]) if ok else False,
                 detail=f"{[(e[0], e[2]) for e in bc]}")

    # -- subscribe ---------------------------------------------------------------------------------------------
    def run_subscribe(self, ctx):
        it = self.setup(ctx)
        o, w = self.obj, self.w
        uid = f"{RFILE}::ReplaySubject._subscribe_core"
        trims = self.stub_trim(it)
        state = ctx.choose(4, "subject state")  # live / failed / completed / disposed
        exc = SV(ctx.fresh("stored_error", "val").t, "val", tag="exc")
        ctx.assume(exc.t != smt.NONE)
        o.fields["exception"] = exc if state == 1 else None
        o.fields["is_stopped"] = state in (1, 2)
        o.fields["is_disposed"] = state == 3
        obs0 = it.seq_term(o.fields["observers"])
        observer = Opaque("observer", "late_subscriber")
        it.loop_contracts = {("ReplaySubject._subscribe_core", 0): {"name": "replay"}}
        self.loop_state = {}
        it.on_loop = self.on_loop_replay
        w.log.clear()
        raised, res = None, None
        try:
            res = it.call(it.get_attr(o, "_subscribe_core"), [observer, None], {})
        except PyExc as e:
            raised = e.value
        if state == 3:
            self.rec(ctx, uid + "/disposed/raises-DisposedException-and-registers-nobody",
                     isinstance(raised, Obj) and raised.cls.name == "DisposedException" and it.seq_term(o.fields["observers"]) == obs0)
            return
        self.rec(ctx, uid + "/does-not-raise", raised is None)
        ok = len(self.made) == 1 and self.made[0][1] and self.made[0][1][0] is self.sched and self.made[0][1][1] is observer
        self.rec(ctx, uid + "/wraps-the-observer-in-a-ScheduledObserver-on-the-subject's-scheduler", ok)
        if not ok:
            return
        so = self.made[0][0]
        nows = [e for e in w.log if e[0] == "now"]
        order = [e for e in w.log if e[0] in ("trim", "so", "replay")]
        self.rec(ctx, uid + "/trims-with-the-current-time-before-anything-is-replayed",
                 len(trims) == 1 and len(nows) == 1 and same(trims[0][0][0], IntSV(nows[0][1])) and bool(order) and order[0][0] == "trim" and trims[0][1] == 1)
        obs1 = it.seq_term(o.fields["observers"])
        self.rec(ctx, uid + "/registers-exactly-the-new-observer-at-the-end", obs1 == z3.Concat(obs0, z3.Unit(so.attrs["term"])))
        rp = [e for e in w.log if e[0] == "replay"]
        self.rec(ctx, uid + "/replays-the-retained-queue-under-the-lock-after-registering", len(rp) == 1 and rp[0][2] == 1)
        sos = [e for e in w.log if e[0] == "so"]
        tail = [(e[2], e[4]) for e in sos]
        want_term = [("on_error", 1)] if state == 1 else ([("on_completed", 1)] if state == 2 else [])
        self.rec(ctx, uid + "/then-the-terminal-if-any-then-activation-outside-the-lock", tail == want_term + [("ensure_active", 0)]
                 and all(e[1] is so for e in sos), detail=f"{tail}")
        if state == 1 and sos:
            self.rec(ctx, uid + "/the-terminal-is-the-stored-error", same(sos[0][3][0], exc))
        if rp and sos:
            self.rec(ctx, uid + "/replay-comes-before-the-terminal", w.log.index(rp[0]) < w.log.index(sos[0]))
        self.rec(ctx, uid + "/returns-a-disposable-that-unregisters-this-observer",
                 isinstance(res, Obj) and res.cls.name == "RemovableDisposable" and res.fields.get("subject") is o and res.fields.get("observer") is so)

    def on_loop_replay(self, it, st, env, key, lc, iterable=None):
        """`for item in self.queue: so.on_next(item.value)`: one arbitrary iteration"""
        ctx = it.ctx
        w = self.w
        uid = f"{RFILE}::ReplaySubject._subscribe_core/replay-loop"
        q = it.seq_term(self.obj.fields["queue"])
        self.rec(ctx, uid + "/iterates-the-retained-queue", isinstance(iterable, ListObj) and iterable is self.obj.fields["queue"])
        w.log.append(("replay", q, w.depth))
        # an arbitrary element
        t = ctx.fresh("some_record", "val").t
        item = self.qitem(it, t)
        it.assign(st.target, item, env)
        mark = len(w.log)
        try:
            it.exec_block(st.body, env)
        except (_Break, _Continue):
            self.rec(ctx, uid + "/never-leaves-the-loop-early", False)
        evs = w.log[mark:]
        sos = [e for e in evs if e[0] == "so"]
        ok = len(evs) == 1 and len(sos) == 1 and sos[0][2] == "on_next" and self.made and sos[0][1] is self.made[0][0]
        self.rec(ctx, uid + "/gives-exactly-that-record's-value-to-the-new-observer-and-does-nothing-else",
                 same(sos[0][3][0], item.attrs["value"]) if ok else False, detail=f"{[(e[0], e[2] if len(e) > 2 else None) for e in evs]}")
        del w.log[mark:]

    # -- disposal ------------------------------------------------------------------------------------------------
    def run_removable(self, ctx):
        it = self.setup(ctx)
        o, w = self.obj, self.w
        uid = f"{RFILE}::RemovableDisposable.dispose"
        cls = it.module_get("reactivex.subject.replaysubject", "RemovableDisposable")
        so = Opaque("so", "my_so", term=ctx.fresh("my_so", "val").t)
        present = ctx.choose(2, "still registered") == 0
        disposed = ctx.choose(2, "subject disposed") == 1
        o.fields["is_disposed"] = disposed
        o.fields["observers"] = ListObj([so, Opaque("so", "other", term=ctx.fresh("other", "val").t)] if present else [Opaque("so", "other", term=ctx.fresh("other", "val").t)])
        d = it.call(cls, [o, so], {})
        w.log.clear()
        it.call(it.get_attr(d, "dispose"), [], {})
        sos = [e for e in w.log if e[0] == "so"]
        self.rec(ctx, uid + "/stops-the-scheduled-observer", len(sos) == 1 and sos[0][1] is so and sos[0][2] == "dispose")
        left = o.fields["observers"].items
        self.rec(ctx, uid + "/unregisters-exactly-this-observer", (so not in left) and len(left) == 1 if not disposed else True)

    def run_dispose(self, ctx):
        it = self.setup(ctx)
        o = self.obj
        uid = f"{RFILE}::ReplaySubject.dispose"
        it.call(it.get_attr(o, "dispose"), [], {})
        self.rec(ctx, uid + "/forgets-the-retained-values-and-the-subscribers-and-marks-itself-disposed",
                 z3.Length(it.seq_term(o.fields["queue"])) == 0 and o.fields.get("is_disposed") is True
                 and isinstance(o.fields.get("observers"), ListObj) and not o.fields["observers"].symbolic and not o.fields["observers"].items)

    def run(self):
        t0 = time.time()
        try:
            for c in ("ReplaySubject", "RemovableDisposable"):
                node = self.loader.find(RFILE, c)
                for q, n in all_functions(node, c):
                    self.functions[f"{RFILE}::{q}"] = self.loader.sha(RFILE, q)
            scen = [self.run_init, self.run_trim, self.run_on_next, lambda ctx: self.run_terminal(ctx, "_on_error_core"),
                    lambda ctx: self.run_terminal(ctx, "_on_completed_core"), self.run_subscribe, self.run_removable, self.run_dispose]
            for f in scen:
                for p in explore(f):
                    self.results.extend(p.results)
        except Unsupported as e:
            self.unsupported = str(e)
        except PyExc as e:
            self.unsupported = f"interpreter-level exception: {e.value!r} {getattr(e.value, 'fields', '')}"
        self.seconds = time.time() - t0
        return self


MUTANTS = {
    "window boundary off by one": ("(now - self.queue[0].interval) > self._window", "(now - self.queue[0].interval) >= self._window"),
    "buffer keeps one too many": ("        while len(self.queue) > self.buffer_size:", "        while len(self.queue) > self.buffer_size + 1:"),
    "trims from the wrong end": ("        while len(self.queue) > self.buffer_size:\n            self.queue.popleft()", "        while len(self.queue) > self.buffer_size:\n            self.queue.pop()"),
    "value stamped after trimming": ("            self.queue.append(QueueItem(interval=now, value=value))\n            self._trim(now)", "            self._trim(now)\n            self.queue.append(QueueItem(interval=now, value=value))"),
    "registered outside the lock": ("            self.observers.append(so)\n\n            for item in self.queue:\n                so.on_next(item.value)",
                                    "            for item in self.queue:\n                so.on_next(item.value)"),
    "terminal before the replay": ("            for item in self.queue:\n                so.on_next(item.value)\n\n            if self.exception is not None:\n                so.on_error(self.exception)\n            elif self.is_stopped:\n                so.on_completed()",
                                   "            if self.exception is not None:\n                so.on_error(self.exception)\n            elif self.is_stopped:\n                so.on_completed()\n\n            for item in self.queue:\n                so.on_next(item.value)"),
    "subscribe without trimming": ("            self.check_disposed()\n            self._trim(self.scheduler.now)", "            self.check_disposed()"),
    "replays the time stamps": ("                so.on_next(item.value)", "                so.on_next(item.interval)"),
    "never activated": ("                so.on_completed()\n\n        so.ensure_active()", "                so.on_completed()\n"),
    "error not remembered": ("            self.observers.clear()\n            self.exception = error", "            self.observers.clear()"),
}


def must_fail():
    out = {"mutants": 0, "killed": 0, "survivors": []}
    src = Loader().load_file(RFILE).src
    for name, (a, b) in MUTANTS.items():
        if a not in src:
            continue
        ld = Loader()
        ld.overrides = {RFILE: src.replace(a, b, 1)}
        h = ReplayHarness(ld).run()
        out["mutants"] += 1
        if h.unsupported or any(r.verdict == "refuted" for r in h.results):
            out["killed"] += 1
        else:
            out["survivors"].append(name)
    return out


def run_unit(desc):
    import json
    import os
    h = ReplayHarness().run()
    res = [r.as_dict() for r in h.results]
    rep = {
        "unit": f"{RFILE}::ReplaySubject",
        "kind": "function contracts with loop invariants for ReplaySubject (sequence view of the retained queue)",
        "functions": h.functions,
        "results": res,
        "unsupported": h.unsupported,
        "spec_validation": [],
        "bounded": [],
        "replayable": {"runner": "replayrun.py", "module": "-", "name": "C22"},
    }
    # the monitor discipline of _subscribe_core (AST): registration, trim and replay of the retained values in ONE critical section
    from types import SimpleNamespace
    from .classref import subscribe_lock_discipline
    from .loader import Loader as _Loader
    rep["results"] = rep["results"] + subscribe_lock_discipline(SimpleNamespace(file=RFILE, cls="ReplaySubject", uid=f"{RFILE}::ReplaySubject"), _Loader())
    from .classref import state_lock_discipline
    rep["results"] = rep["results"] + state_lock_discipline(SimpleNamespace(file=RFILE, cls="ReplaySubject", uid=f"{RFILE}::ReplaySubject"), _Loader())
    if desc.get("tier") == "thorough" and not h.unsupported:
        mf = must_fail()
        rep["must_fail"] = dict(mf, unit=rep["unit"])
        if mf["mutants"] and mf["killed"] < mf["mutants"]:
            rep["crash"] = f"vacuity: must-fail mutants survived: {mf['survivors']}"
    if h.unsupported or desc.get("tier") == "thorough":
        from .report import native, VERIF, REPLAY_DIR
        r, err = native([os.path.join(VERIF, "rxvc", "replayrun.py"), "replay", "-", "C22",
                         json.dumps({"replay_path": os.path.join(REPLAY_DIR, "C22-standin.py"), "prop": "C22", "max_len": 4,
                                     "oid": rep["unit"] + "/bounded-standin"})], timeout=250)
        st = r if r is not None else {"found": [], "error": err, "cases": 0}
        rep["bounded"].append({"function": rep["unit"], "bound": "replayrun.py: timed histories of <= 4 events (on_next incl. None, subscribe, complete, error; gaps "
                               "0/1/2) x buffer_size in {0,1,2,None} x window in {None,1,2} on a VirtualTimeScheduler", "cases": st.get("cases", 0),
                               "mismatches": len(st.get("found", [])),
                               "role": "stand-in (out of subset)" if h.unsupported else "cross-check of the contracts against CPython"})
        if h.unsupported:
            rep["standin"] = st
        elif st.get("found") and all(x["verdict"] == "proved" for x in res):
            rep["crash"] = f"cross-check failed: contracts proved but the native run disagrees: {st['found'][0]}"
    return rep
