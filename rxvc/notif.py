"""C05 (materialize / dematerialize), C01 (the notification grammar those two operators translate): function contracts of the Notification classes
(reactivex/notification.py), on the real code.  The operator contracts treat a notification element as a value with a kind and a payload; that the
real classes ARE that - and that `accept` replays exactly the one notification they stand for - is what these clauses add.

  OnNext(v)        kind "N", has_value, value is v itself (falsy values included)
                   accept(observer)              exactly one call observer.on_next(v), nothing else
                   accept(f, g, h)               exactly one call f(v), nothing else
  OnError(e)       kind "E", no value, exception is e itself when e is an exception
                   accept(observer)              exactly observer.on_error(e)
                   accept(f, g, h)               exactly g(e); nothing when g is None
  OnCompleted()    kind "C", no value
                   accept(observer)              exactly observer.on_completed()
                   accept(f, g, h)               exactly h(); nothing when h is None
  n.to_observable(s).subscribe(o, s2)            schedules exactly one action on s2, else s (nothing runs at subscription); the action replays
                                                 the notification on o, followed by on_completed for an OnNext; returns the scheduler's handle
  from_notifier(handler)                         an observer whose on_next(v) / on_error(e) / on_completed() calls handler exactly once with an
                                                 OnNext holding v / OnError holding e / OnCompleted
"""
from __future__ import annotations

import time

import z3

from . import smt
from .interp import Interp, World, explore
from .loader import Loader, all_functions
from .refine import Result
from .values import SV, Closure, Obj, Opaque, PyExc, Unsupported

NFILE = "reactivex/notification.py"
MOD = "reactivex.notification"


class NWorld(World):
    def __init__(self):
        super().__init__()
        self.log = []

    def truthy(self, it, o):
        return True

    def isinstance(self, it, o, cls):
        n = (getattr(cls, "name", "") or "").split(".")[-1]
        if o.kind == "observer":
            return n in ("ObserverBase",)
        if o.kind == "error":
            return n in ("Exception", "BaseException")
        if o.kind in ("callback", "scheduler"):
            return n in ("SchedulerBase",) and o.kind == "scheduler"
        return super().isinstance(it, o, cls)

    def call(self, it, o, method, args, kwargs):
        if o.kind in ("observer", "callback"):
            self.log.append((o, method, list(args), dict(kwargs)))
            return None
        if o.kind == "scheduler":
            self.log.append((o, method, list(args), dict(kwargs)))
            return Opaque("disposable", f"handle-of-{o.name}")
        if o.kind in ("lock", "logger"):
            return None
        return super().call(it, o, method, args, kwargs)


def same(a, b):
    return (a is b) or (isinstance(a, SV) and isinstance(b, SV) and a.t.eq(b.t))


class NotifHarness:
    def __init__(self, loader=None):
        self.loader = loader or Loader()
        self.results = []
        self.unsupported = None
        self.functions = {}

    def rec(self, ctx, oid, goal, detail=""):
        t0 = time.time()
        if isinstance(goal, bool):
            goal = z3.BoolVal(goal)
        v, m, b = smt.prove(ctx.pc, goal)
        ctx.results.append(Result(oid, v, b, smt.model_to_dict(m), list(ctx.branch_log), detail, time.time() - t0, "post"))

    def make(self, it, ctx, kind):
        v = ctx.fresh("v", "val")
        e = Opaque("error", "e")
        cls = it.module_get(MOD, {"N": "OnNext", "E": "OnError", "C": "OnCompleted"}[kind])
        n = it.call(cls, [v] if kind == "N" else ([e] if kind == "E" else []), {})
        return n, v, e

    def want_call(self, kind, v, e):
        return {"N": ("on_next", [v]), "E": ("on_error", [e]), "C": ("on_completed", [])}[kind]

    def run_fields_and_accept(self, ctx):
        w = NWorld()
        it = Interp(self.loader, ctx, w)
        kind = "NEC"[ctx.choose(3, "OnNext / OnError / OnCompleted")]
        uid = f"{NFILE}::" + {"N": "OnNext", "E": "OnError", "C": "OnCompleted"}[kind]
        n, v, e = self.make(it, ctx, kind)
        ok = isinstance(n, Obj)
        self.rec(ctx, uid + ".__init__/builds-a-notification-and-calls-nothing", ok and not w.log)
        if not ok:
            return
        f = n.fields
        self.rec(ctx, uid + ".__init__/kind", f.get("kind") == kind, detail=f"kind = {f.get('kind')!r}")
        self.rec(ctx, uid + ".__init__/has_value-exactly-for-an-element", f.get("has_value") is (kind == "N"), detail=f"has_value = {f.get('has_value')!r}")
        if kind == "N":
            self.rec(ctx, uid + ".__init__/holds-the-very-value", same(f.get("value"), v), detail=f"{f.get('value')!r}")
        if kind == "E":
            self.rec(ctx, uid + ".__init__/holds-the-very-exception", f.get("exception") is e, detail=f"{f.get('exception')!r}")
        form = ctx.choose(3, "accept(observer) / accept(f, g, h) / accept(f) only")
        meth, args = self.want_call(kind, v, e)
        if form == 0:
            o = Opaque("observer", "o")
            it.call(it.get_attr(n, "accept"), [o], {})
            good = len(w.log) == 1 and w.log[0][0] is o and w.log[0][1] == meth and len(w.log[0][2]) == len(args) and all(same(a, b) for a, b in zip(w.log[0][2], args))
            self.rec(ctx, uid + ".accept/replays-exactly-its-own-notification-on-the-observer", good, detail=f"{[(x[0].name, x[1], x[2]) for x in w.log]!r}")
        else:
            fs = {"on_next": Opaque("callback", "f"), "on_error": Opaque("callback", "g"), "on_completed": Opaque("callback", "h")}
            a = [fs["on_next"]] + ([fs["on_error"], fs["on_completed"]] if form == 1 else [])
            it.call(it.get_attr(n, "accept"), a, {})
            if form == 1 or kind == "N":
                good = len(w.log) == 1 and w.log[0][0] is fs[meth] and w.log[0][1] == "__call__" and len(w.log[0][2]) == len(args) and all(same(p, q) for p, q in zip(w.log[0][2], args))
                self.rec(ctx, uid + "._accept/calls-exactly-the-callback-of-its-kind-with-its-payload", good, detail=f"{[(x[0].name, x[1], x[2]) for x in w.log]!r}")
            else:
                self.rec(ctx, uid + "._accept/without-a-callback-for-its-kind-nothing-is-called", not w.log, detail=f"{[(x[0].name, x[1]) for x in w.log]!r}")

    def run_to_observable(self, ctx):
        w = NWorld()
        it = Interp(self.loader, ctx, w)
        kind = "NEC"[ctx.choose(3, "OnNext / OnError / OnCompleted")]
        uid = f"{NFILE}::Notification.to_observable"
        n, v, e = self.make(it, ctx, kind)
        s1, s2 = Opaque("scheduler", "s1"), Opaque("scheduler", "s2")
        at_sub = ctx.choose(2, "a scheduler is passed to subscribe") == 1
        obs = it.call(it.get_attr(n, "to_observable"), [s1], {})
        self.rec(ctx, uid + "/building-the-observable-calls-nothing", not w.log)
        sub = obs.fields.get("_subscribe") if isinstance(obs, Obj) else None
        if not isinstance(sub, Closure):
            self.rec(ctx, uid + "/is-an-observable-over-a-subscribe-function", False, detail=f"{obs!r}")
            return
        o = Opaque("observer", "o")
        r = it.call(sub, [o, s2 if at_sub else None], {})
        want_s = s2 if at_sub else s1
        ok = len(w.log) == 1 and w.log[0][0] is want_s and w.log[0][1] == "schedule" and len(w.log[0][2]) >= 1
        self.rec(ctx, uid + "/subscribing-schedules-exactly-one-action-on-the-subscription's-scheduler-else-the-given-one-and-emits-nothing-yet", ok,
                 detail=f"{[(x[0].name, x[1]) for x in w.log]!r}")
        if not ok:
            return
        self.rec(ctx, uid + "/returns-the-scheduler's-handle", isinstance(r, Opaque) and r.kind == "disposable" and r.name == f"handle-of-{want_s.name}")
        action = w.log[0][2][0]
        w.log.clear()
        it.call(action, [want_s, None], {})
        meth, args = self.want_call(kind, v, e)
        want = [(meth, args)] + ([("on_completed", [])] if kind == "N" else [])
        got = [(x[1], x[2]) for x in w.log if x[0] is o]
        good = len(w.log) == len(got) == len(want) and all(g[0] == wv[0] and len(g[1]) == len(wv[1]) and all(same(p, q) for p, q in zip(g[1], wv[1])) for g, wv in zip(got, want))
        self.rec(ctx, uid + "/the-action-replays-the-notification-(an-element-is-followed-by-completion)-and-nothing-else", good, detail=f"{got!r}")

    def run_from_notifier(self, ctx):
        w = NWorld()
        it = Interp(self.loader, ctx, w)
        uid = f"{NFILE}::from_notifier"
        handler = Opaque("callback", "handler")
        fn = it.module_get(MOD, "from_notifier")
        ob = it.call(fn, [handler], {})
        self.rec(ctx, uid + "/making-the-observer-calls-nothing", not w.log and isinstance(ob, Obj))
        if not isinstance(ob, Obj):
            return
        kind = "NEC"[ctx.choose(3, "on_next / on_error / on_completed")]
        v = ctx.fresh("v", "val")
        e = Opaque("error", "e")
        meth, args = self.want_call(kind, v, e)
        it.call(it.get_attr(ob, meth), list(args), {})
        ok = len(w.log) == 1 and w.log[0][0] is handler and len(w.log[0][2]) == 1 and isinstance(w.log[0][2][0], Obj)
        self.rec(ctx, uid + "/one-call-of-the-handler-with-one-notification", ok, detail=f"{[(x[0].name, x[1], x[2]) for x in w.log]!r}")
        if not ok:
            return
        n = w.log[0][2][0]
        good = n.cls.name == {"N": "OnNext", "E": "OnError", "C": "OnCompleted"}[kind] and n.fields.get("kind") == kind
        if kind == "N":
            good = good and same(n.fields.get("value"), v)
        if kind == "E":
            good = good and n.fields.get("exception") is e
        self.rec(ctx, uid + "/the-notification-is-of-the-kind-received-and-holds-its-payload", good, detail=f"{n!r} {n.fields!r}")

    def run(self):
        t0 = time.time()
        try:
            for c in ("Notification", "OnNext", "OnError", "OnCompleted"):
                node = self.loader.find(NFILE, c)
                for q, _n in all_functions(node, c):
                    if q.split(".")[-1] in ("__str__", "equals", "__eq__"):
                        continue
                    self.functions[f"{NFILE}::{q}"] = self.loader.sha(NFILE, q)
            self.functions[f"{NFILE}::from_notifier"] = self.loader.sha(NFILE, "from_notifier")
            for f in (self.run_fields_and_accept, self.run_to_observable, self.run_from_notifier):
                for p in explore(f):
                    self.results.extend(p.results)
        except Unsupported as e:
            self.unsupported = str(e)
        except PyExc as e:
            self.unsupported = f"interpreter-level exception: {e.value!r} {getattr(e.value, 'fields', '')}"
        self.seconds = time.time() - t0
        return self


MUTANTS = [
    ("        self.has_value: bool = True\n", "        self.has_value: bool = bool(value)\n", "a falsy element has no value"),
    ("        return observer.on_next(self.value)\n", "        return observer.on_next(self.value) if self.value is not None else None\n", "a None element is not replayed"),
    ("        return on_completed() if on_completed else None", "        return on_completed() if on_completed else on_next(None)", "completion without a callback emits an element"),
    ("                if self.kind == \"N\":\n                    observer.on_completed()", "                if self.kind != \"E\":\n                    observer.on_completed()",
     "to_observable completes twice for an OnCompleted"),
    ("            __scheduler = scheduler or _scheduler", "            __scheduler = _scheduler or scheduler", "the subscription's scheduler loses against the bound one"),
    ("        return handler(OnError(error))", "        return handler(OnCompleted())", "from_notifier turns an error into a completion"),
]


def must_fail():
    out = {"mutants": 0, "killed": 0, "survivors": []}
    src = Loader().load_file(NFILE).src
    for (a, b, name) in MUTANTS:
        if a not in src:
            continue
        ld = Loader()
        ld.overrides = {NFILE: src.replace(a, b, 1)}
        h = NotifHarness(ld).run()
        out["mutants"] += 1
        if h.unsupported or any(r.verdict == "refuted" for r in h.results):
            out["killed"] += 1
        else:
            out["survivors"].append(name)
    return out


def run_unit(desc):
    h = NotifHarness().run()
    rep = {"unit": f"{NFILE}::Notification+OnNext+OnError+OnCompleted+from_notifier", "kind": "function contracts of the notification classes (callee contracts of materialize / dematerialize)",
           "functions": h.functions, "results": [r.as_dict() for r in h.results], "unsupported": h.unsupported, "spec_validation": [], "bounded": [],
           "replayable": {"runner": "notifrun.py", "module": "-", "name": "notifications"}}
    if h.unsupported or desc.get("tier") == "thorough":
        import json
        import os
        from .report import REPLAY_DIR, VERIF, native
        prop = desc.get("prop", "C05")
        r, err = native([os.path.join(VERIF, "rxvc", "notifrun.py"), "replay", "-", "notifications",
                         json.dumps({"replay_path": os.path.join(REPLAY_DIR, f"{prop}-standin-notifications.py"), "prop": prop, "oid": rep["unit"] + "/bounded-standin"})])
        st = r if r is not None else {"found": [], "error": err, "cases": 0}
        if h.unsupported:
            rep["standin"] = st
        rep["bounded"].append({"function": rep["unit"], "bound": "notifrun.py: three kinds x a table of payloads (falsy ones included) x accept forms, to_observable on the immediate "
                               "and a virtual-time scheduler, from_notifier", "cases": st.get("cases", 0), "mismatches": len(st.get("found", [])),
                               "role": "stand-in (out of subset)" if h.unsupported else "cross-check against CPython"})
    if desc.get("tier") == "thorough" and not h.unsupported:
        mf = must_fail()
        rep["must_fail"] = dict(mf, unit=rep["unit"])
        if mf["mutants"] and mf["killed"] < mf["mutants"]:
            rep["crash"] = f"vacuity: must-fail mutants survived: {mf['survivors']}"
    return rep
