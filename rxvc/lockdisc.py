"""K7 lock discipline (C43), decided on the real AST of one combinator.

The contract is the classic `guarded_by`:  the downstream observer (and every window subject handed to
it) and every state cell that handlers share are guarded by the operator's ONE lock.  It is checked
modularly, function by function:

  * every nested function gets the context(s) it can run in
        L(lock)  - decorated `@synchronized(lock)`, or lexically inside `with lock:`
        P        - the subscribing thread before the first callable has escaped (nothing else can run yet)
        S        - the subscribing thread after that (one thread, but handlers may already run beside it)
        U        - a handler / scheduled action / lambda handed to a source or scheduler: it runs on whatever
                   thread that source or scheduler uses
    a helper that is only ever called (never handed out) inherits the union of the contexts of its call
    sites (least fixpoint; call sites inside loops or after the first escape lose P);
  * obligations, one per site, on ALL paths (the check is syntactic, so path-insensitive):
        - a call `<x>.on_next/on_error/on_completed(...)` is never in context U or S;
        - a bound method `observer.on_*` is never handed out unwrapped (only as `synchronized(lock)(...)`);
        - a write to a handler-shared cell (a list or nonlocal that handler-reachable code refers to; item
          store, augmented store, list mutator, nonlocal store) is never in context U or S;
        - all L contexts name the same lock expression.
  * composition units (flat_map, merge): the function has no downstream calls of its own and its result is
    `....pipe(..., merge_all())`, so it inherits merge_all's discipline.

Sound for the listed operators under A-static (names mean what the module's own source says),
`Observable.lock` being assigned once per object (checked here on Observable.__init__), and the RLock
contract.  Unlocked READS of shared cells are not flagged (amb's design reads a write-once cell outside the
lock; amb is decided by the path-sensitive symbolic lock-set check instead).
"""
from __future__ import annotations

import ast
import time

from .loader import Loader

NOTIFS = ("on_next", "on_error", "on_completed")
LIST_MUTATORS = {"append", "pop", "clear", "extend", "insert", "remove", "sort", "reverse", "popleft", "appendleft"}

#: units: (name, file, function, kind)
UNITS = [
    ("merge_all", "reactivex/operators/_merge.py", "merge_all_", "locks"),
    ("merge(max_concurrent)", "reactivex/operators/_merge.py", "merge_", "locks"),
    ("zip", "reactivex/observable/zip.py", "zip_", "locks"),
    ("combine_latest", "reactivex/observable/combinelatest.py", "combine_latest_", "locks"),
    ("with_latest_from", "reactivex/observable/withlatestfrom.py", "with_latest_from_", "locks"),
    ("window_with_time", "reactivex/operators/_windowwithtime.py", "window_with_time_", "locks"),
    ("window_with_time_or_count", "reactivex/operators/_windowwithtimeorcount.py", "window_with_time_or_count_", "locks"),
    ("flat_map", "reactivex/operators/_flatmap.py", "_flat_map_internal", "composes-merge_all"),
    ("flat_map/outer", "reactivex/operators/_flatmap.py", "flat_map_", "returns:_flat_map_internal", "flat_map"),
    ("flat_map_indexed/outer", "reactivex/operators/_flatmap.py", "flat_map_indexed_", "returns:_flat_map_internal", "flat_map"),
    ("merge(*sources)", "reactivex/observable/merge.py", "merge_", "composes-merge_all"),
]


class Fn:
    def __init__(self, node, parent, name):
        self.node = node
        self.parent = parent
        self.name = name
        self.children = {}  # direct nested defs by name
        self.lambdas = []
        self.decor_lock = None
        self.escaping = False
        self.modes = set()  # {("L", text), "P", "U"}
        self.sites = []  # call sites of this function: (caller Fn, lexical lock text|None, stmt idx, in_loop)
        self.events = []  # (kind, label, line, lexlock, stmt idx, detail)
        self.calls = []  # (callee name, lexlock, stmt idx, in_loop)
        self.escapes_at = []  # stmt idx of direct escapes
        self.nonlocals = set()
        self.refs = set()  # names referenced
        self.locals = set()  # parameters and names assigned here (they shadow outer function names)
        self.bound_lists = set()

    def qual(self):
        parts, f = [], self
        while f is not None:
            parts.append(f.name)
            f = f.parent
        return ".".join(reversed(parts))

    def resolve(self, name):
        f = self
        while f is not None:
            if name in f.children:
                return f.children[name]
            if name in f.locals and name not in f.nonlocals:
                return None
            f = f.parent
        return None


def lock_of_decorator(d):
    """`@synchronized(<lock>)` -> text of <lock>"""
    if isinstance(d, ast.Call) and isinstance(d.func, ast.Name) and d.func.id == "synchronized" and len(d.args) == 1:
        return ast.unparse(d.args[0])
    return None


def is_listish(v):
    if isinstance(v, (ast.List, ast.ListComp)):
        return True
    if isinstance(v, ast.BinOp) and isinstance(v.op, ast.Mult) and (is_listish(v.left) or is_listish(v.right)):
        return True
    if isinstance(v, ast.Call) and isinstance(v.func, ast.Name) and v.func.id in ("list", "deque"):
        return True
    return False


def base_name(node):
    while isinstance(node, (ast.Subscript, ast.Attribute)):
        if isinstance(node, ast.Attribute):
            return None  # obj.attr[...]: not a closure cell
        node = node.value
    return node.id if isinstance(node, ast.Name) else None


class Builder:
    def __init__(self, observer):
        self.observer = observer

    def build(self, node, parent, name):
        fn = Fn(node, parent, name)
        a = node.args
        for x in a.posonlyargs + a.args + a.kwonlyargs + ([a.vararg] if a.vararg else []) + ([a.kwarg] if a.kwarg else []):
            fn.locals.add(x.arg)
        if isinstance(node, ast.Lambda):
            self.walk_expr(fn, node.body, None, 0, False)
            return fn
        for d in node.decorator_list:
            lk = lock_of_decorator(d)
            if lk:
                fn.decor_lock = lk
        for idx, st in enumerate(node.body):
            self.walk_stmt(fn, st, None, idx, False)
        return fn

    # -- statements --------------------------------------------------------------------------------------
    def walk_stmt(self, fn, st, lock, idx, loop):
        if isinstance(st, (ast.FunctionDef, ast.AsyncFunctionDef)):
            child = self.build(st, fn, st.name)
            fn.children[st.name] = child
            for d in st.decorator_list:
                self.walk_expr(fn, d, lock, idx, loop)
            return
        if isinstance(st, ast.Nonlocal):
            fn.nonlocals.update(st.names)
            return
        if isinstance(st, ast.With):
            inner = lock
            for item in st.items:
                self.walk_expr(fn, item.context_expr, lock, idx, loop)
                t = ast.unparse(item.context_expr)
                if t.endswith("lock") or t.endswith("_lock") or t == "lock":
                    inner = t
            for s in st.body:
                self.walk_stmt(fn, s, inner, idx, loop)
            return
        if isinstance(st, (ast.For, ast.While)):
            if isinstance(st, ast.For):
                self.walk_expr(fn, st.iter, lock, idx, loop)
                self.walk_target(fn, st.target, lock, idx, st)
            else:
                self.walk_expr(fn, st.test, lock, idx, True)
            for s in st.body + st.orelse:
                self.walk_stmt(fn, s, lock, idx, True)
            return
        if isinstance(st, ast.If):
            self.walk_expr(fn, st.test, lock, idx, loop)
            for s in st.body + st.orelse:
                self.walk_stmt(fn, s, lock, idx, loop)
            return
        if isinstance(st, ast.Try):
            for s in st.body + st.orelse + st.finalbody:
                self.walk_stmt(fn, s, lock, idx, loop)
            for h in st.handlers:
                for s in h.body:
                    self.walk_stmt(fn, s, lock, idx, loop)
            return
        if isinstance(st, ast.Assign):
            self.walk_expr(fn, st.value, lock, idx, loop)
            for t in st.targets:
                self.walk_target(fn, t, lock, idx, st)
                if isinstance(t, ast.Name) and is_listish(st.value):
                    fn.bound_lists.add(t.id)
            return
        if isinstance(st, ast.AnnAssign):
            if st.value is not None:
                self.walk_expr(fn, st.value, lock, idx, loop)
                self.walk_target(fn, st.target, lock, idx, st)
                if isinstance(st.target, ast.Name) and is_listish(st.value):
                    fn.bound_lists.add(st.target.id)
            return
        if isinstance(st, ast.AugAssign):
            self.walk_expr(fn, st.value, lock, idx, loop)
            self.walk_target(fn, st.target, lock, idx, st)
            return
        if isinstance(st, ast.Delete):
            for t in st.targets:
                self.walk_target(fn, t, lock, idx, st)
            return
        for child in ast.iter_child_nodes(st):
            if isinstance(child, ast.expr):
                self.walk_expr(fn, child, lock, idx, loop)
            elif isinstance(child, ast.stmt):
                self.walk_stmt(fn, child, lock, idx, loop)

    def walk_target(self, fn, t, lock, idx, st):
        if isinstance(t, (ast.Tuple, ast.List)):
            for e in t.elts:
                self.walk_target(fn, e, lock, idx, st)
            return
        if isinstance(t, ast.Name):
            fn.refs.add(t.id)
            fn.locals.add(t.id)
            if t.id in fn.nonlocals:
                fn.events.append(("write", t.id, t.lineno, lock, idx, f"nonlocal `{t.id}` is assigned"))
            return
        if isinstance(t, ast.Subscript):
            b = base_name(t)
            self.walk_expr(fn, t.value, lock, idx, False)
            self.walk_expr(fn, t.slice, lock, idx, False)
            if b is not None:
                fn.events.append(("write", b, t.lineno, lock, idx, f"`{ast.unparse(t)}` is stored"))
            return
        if isinstance(t, ast.Attribute):
            self.walk_expr(fn, t.value, lock, idx, False)

    # -- expressions -------------------------------------------------------------------------------------
    def walk_expr(self, fn, e, lock, idx, loop, callee_of=None):
        if e is None:
            return
        if isinstance(e, ast.Lambda):
            lam = self.build(e, fn, f"<lambda:{e.lineno}>")
            lam.escaping = True
            fn.lambdas.append(lam)
            fn.escapes_at.append(idx)
            return
        if isinstance(e, ast.Call):
            f = e.func
            # synchronized(lock)(observer.on_x): a locked wrapper of the downstream method
            if (isinstance(f, ast.Call) and lock_of_decorator(f) and len(e.args) == 1
                    and self.is_downstream_method(e.args[0])):
                fn.events.append(("wrapped", e.args[0].attr, e.lineno, lock_of_decorator(f), idx,
                                  f"`{ast.unparse(e)}`"))
                return
            if isinstance(f, ast.Attribute) and f.attr in NOTIFS:
                fn.events.append(("call", f.attr, e.lineno, lock, idx, f"`{ast.unparse(f)}(...)` is called"))
                self.walk_expr(fn, f.value, lock, idx, loop)
            elif isinstance(f, ast.Attribute) and f.attr in LIST_MUTATORS and base_name(f.value) is not None:
                fn.events.append(("write", base_name(f.value), e.lineno, lock, idx, f"`{ast.unparse(f)}(...)` mutates the list"))
                self.walk_expr(fn, f.value, lock, idx, loop)
            elif isinstance(f, ast.Name):
                fn.calls.append((f.id, lock, idx, loop))
                fn.refs.add(f.id)
            else:
                self.walk_expr(fn, f, lock, idx, loop)
            for a in e.args:
                self.walk_expr(fn, a.value if isinstance(a, ast.Starred) else a, lock, idx, loop)
            for k in e.keywords:
                self.walk_expr(fn, k.value, lock, idx, loop)
            return
        if self.is_downstream_method(e):
            fn.events.append(("leak", e.attr, e.lineno, lock, idx,
                              f"the bound method `{ast.unparse(e)}` is handed out unwrapped: whoever receives it calls the "
                              f"downstream observer on its own thread without the operator's lock"))
            return
        if isinstance(e, ast.Name):
            fn.refs.add(e.id)
            if isinstance(e.ctx, ast.Load):
                fn.escapes_at.append((idx, e.id))  # resolved later: only names of nested functions count
            return
        if isinstance(e, (ast.ListComp, ast.SetComp, ast.GeneratorExp, ast.DictComp)):
            for g in e.generators:
                for n in ast.walk(g.target):
                    if isinstance(n, ast.Name):
                        fn.locals.add(n.id)
                self.walk_expr(fn, g.iter, lock, idx, loop)
                for c in g.ifs:
                    self.walk_expr(fn, c, lock, idx, True)
            if isinstance(e, ast.DictComp):
                self.walk_expr(fn, e.key, lock, idx, True)
                self.walk_expr(fn, e.value, lock, idx, True)
            else:
                self.walk_expr(fn, e.elt, lock, idx, True)
            return
        for child in ast.iter_child_nodes(e):
            if isinstance(child, ast.expr):
                self.walk_expr(fn, child, lock, idx, loop)

    def is_downstream_method(self, e):
        return (isinstance(e, ast.Attribute) and e.attr in NOTIFS and isinstance(e.value, ast.Name)
                and e.value.id == self.observer and isinstance(e.ctx, ast.Load))


def all_fns(root):
    out = [root]
    for c in list(root.children.values()) + root.lambdas:
        out.extend(all_fns(c))
    return out


def find_subscribe(factory):
    for n in ast.walk(factory):
        if isinstance(n, ast.FunctionDef) and n is not factory and n.args.args and n.args.args[0].arg == "observer":
            return n
    return None


def analyse(factory, label):
    """-> (results, stats) for one combinator"""
    sub = find_subscribe(factory)
    if sub is None:
        return None, "no nested subscribe(observer, ...) function (drift)"
    root = Builder("observer").build(sub, None, sub.name)
    fns = all_fns(root)
    # resolve direct escapes: a nested function's name in a non-call position
    for f in fns:
        esc = []
        for x in f.escapes_at:
            if isinstance(x, tuple):
                idx, name = x
                g = f.resolve(name)
                if g is not None:
                    g.escaping = True
                    esc.append(idx)
            else:
                esc.append(x)
        f.escapes_at = esc
    # call sites
    for f in fns:
        for (name, lock, idx, loop) in f.calls:
            g = f.resolve(name)
            if g is not None:
                g.sites.append((f, lock, idx, loop))
    # transitive: first statement of each function at which something has escaped
    INF = 10 ** 9
    first = {f: (min(f.escapes_at) if f.escapes_at else INF) for f in fns}
    changed = True
    while changed:
        changed = False
        for f in fns:
            for (name, lock, idx, loop) in f.calls:
                g = f.resolve(name)
                if g is not None and first[g] < INF and idx < first[f]:
                    first[f] = idx
                    changed = True
    # modes: least fixpoint
    root.modes = {"P"}
    for f in fns:
        if f.decor_lock:
            f.modes = {("L", f.decor_lock)}
        elif f.escaping:
            f.modes = {"U"}

    def at(f, lock, idx, loop, is_call):
        if lock:
            return {("L", lock)}
        ms = set(f.modes)
        if "P" in ms:
            after = idx > first[f] or (idx == first[f] and (loop or not is_call))
            # the escaping statement itself: a helper call there is still the subscribing thread alone unless it repeats
            if after:
                ms.discard("P")
                ms.add("S")
        return ms

    changed = True
    while changed:
        changed = False
        for f in fns:
            if f.decor_lock or f.escaping or f is root:
                continue
            new = set()
            for (caller, lock, idx, loop) in f.sites:
                new |= at(caller, lock, idx, loop, True)
            if new != f.modes:
                f.modes = new
                changed = True
    # handler-shared cells: lists / nonlocals referenced from code that can run off the subscribing thread
    lists, nonl = set(), set()
    for f in fns:
        lists |= f.bound_lists
        nonl |= f.nonlocals
    shared = set()
    for f in fns:
        if any(m == "U" or isinstance(m, tuple) for m in f.modes):
            shared |= (f.refs & (lists | nonl))
            for (kind, lab, *_r) in f.events:
                if kind == "write" and lab in (lists | nonl):
                    shared.add(lab)
    results = []
    locks = set()
    counters = {}
    n_calls = 0
    for f in fns:
        if not f.modes:
            continue  # dead helper: never called, never handed out
        for (kind, lab, line, lock, idx, detail) in f.events:
            if kind == "write" and lab not in shared:
                continue
            key = (f.qual(), kind, lab)
            k = counters.get(key, 0)
            counters[key] = k + 1
            what = {"call": "called-under-the-lock", "write": "state-written-under-the-lock", "leak": "handed-out-only-wrapped",
                    "wrapped": "handed-out-only-wrapped"}[kind]
            oid = f"{label}/lockdisc/{f.qual()}/{lab}#{k}/{what}"
            if kind == "wrapped":
                locks.add(lock)
                results.append((oid, True, f"{detail} (line {line})"))
                n_calls += 1
                continue
            if kind == "leak":
                results.append((oid, False, f"{detail} (line {line})"))
                n_calls += 1
                continue
            ms = at(f, lock, idx, False, False)
            for m in ms:
                if isinstance(m, tuple):
                    locks.add(m[1])
            if kind == "call":
                n_calls += 1
            ok = "U" not in ms and "S" not in ms
            ctx = ", ".join(sorted("L(" + m[1] + ")" if isinstance(m, tuple) else m for m in ms))
            results.append((oid, ok, f"{detail} in {f.qual()} (line {line}); contexts: {ctx}"
                            + ("" if ok else " - no lock held while a handler/action of another source can run on another thread")))
    results.append((f"{label}/lockdisc/one-common-lock", len(locks) <= 1,
                    f"lock expressions used: {sorted(locks)}"))
    if n_calls == 0 or not locks:
        return None, "no downstream call or no lock found in the subscribe function (drift: the discipline has nothing to bite on)"
    return results, None


def composes_merge_all(fnode):
    """the function's own body has no downstream calls and every return is `<x>.pipe(..., merge_all())`"""
    for n in ast.walk(fnode):
        if isinstance(n, ast.Attribute) and n.attr in NOTIFS:
            return False, f"the function touches `{ast.unparse(n)}` itself (line {n.lineno})"
    rets = [n for n in ast.walk(fnode) if isinstance(n, ast.Return) and n.value is not None
            and not any(n in ast.walk(d) for d in ast.walk(fnode) if isinstance(d, ast.FunctionDef) and d is not fnode)]
    if not rets:
        return False, "no return"
    for r in rets:
        v = r.value
        ok = (isinstance(v, ast.Call) and isinstance(v.func, ast.Attribute) and v.func.attr == "pipe" and v.args
              and isinstance(v.args[-1], ast.Call) and not v.args[-1].args and not v.args[-1].keywords
              and ast.unparse(v.args[-1].func) in ("ops.merge_all", "merge_all", "merge_all_"))
        if not ok:
            return False, f"`return {ast.unparse(v)[:80]}` is not a pipe ending in merge_all() (line {r.lineno})"
    return True, "result is `....pipe(..., merge_all())`: the last stage serialises (merge_all's lock discipline)"


def returns_call_of(fnode, callee):
    """every returned value is (a name bound only to) a call of `callee`"""
    bound = {}
    for n in ast.walk(fnode):
        if isinstance(n, ast.Assign) and len(n.targets) == 1 and isinstance(n.targets[0], ast.Name):
            bound.setdefault(n.targets[0].id, []).append(n.value)
    for n in ast.walk(fnode):
        if isinstance(n, ast.Attribute) and n.attr in NOTIFS:
            return False, f"the function touches `{ast.unparse(n)}` itself (line {n.lineno})"

    def is_call(v):
        return isinstance(v, ast.Call) and isinstance(v.func, ast.Name) and v.func.id == callee
    rets = [n for n in ast.walk(fnode) if isinstance(n, ast.Return) and n.value is not None]
    if not rets:
        return False, "no return"
    for r in rets:
        v = r.value
        if is_call(v):
            continue
        if isinstance(v, ast.Name) and v.id in bound and all(is_call(x) for x in bound[v.id]):
            continue
        return False, f"`return {ast.unparse(v)[:80]}` is not the result of {callee}(...) (line {r.lineno})"
    return True, f"result is {callee}(...)"


def lock_assigned_once(loader):
    """Observable.lock is bound in __init__ only (so `source.lock` names one object for the life of the source)"""
    rel = "reactivex/observable/observable.py"
    m = loader.load_file(rel)
    sites = []
    for n in ast.walk(m.tree):
        if isinstance(n, ast.FunctionDef):
            for x in ast.walk(n):
                if isinstance(x, ast.Attribute) and x.attr == "lock" and isinstance(x.ctx, (ast.Store, ast.Del)):
                    sites.append((n.name, x.lineno))
    ok = bool(sites) and all(fn == "__init__" for fn, _ in sites)
    return ok, f"stores to .lock in {rel}: {sites}"


def run_unit(desc):
    t0 = time.time()
    loader = Loader()
    name, rel, func, kind = desc["name"], desc["file"], desc["func"], desc["mode"]
    label = f"{rel}::{func}"
    results, functions, unsupported = [], {}, None

    def add(oid, ok, detail):
        results.append({"id": oid, "verdict": "proved" if ok else "refuted", "backend": "lock-discipline", "model": {},
                        "path": [], "detail": detail, "seconds": 0.0, "kind": "lockset"})
    try:
        node = loader.find(rel, func)
        functions[label] = loader.sha(rel, func)
    except Exception as e:  # noqa: BLE001
        return {"unit": label, "kind": "K7 lock discipline", "functions": {}, "results": [],
                "unsupported": f"{label} not found ({e})", "spec_validation": [], "bounded": []}
    if kind == "locks":
        res, err = analyse(node, label)
        if res is None:
            unsupported = err
        else:
            for oid, ok, detail in res:
                add(oid, ok, detail)
            ok, detail = lock_assigned_once(loader)
            functions["reactivex/observable/observable.py::Observable.__init__"] = loader.sha(
                "reactivex/observable/observable.py", "Observable.__init__")
            add(f"{label}/lockdisc/source.lock-bound-once", ok, detail)
    elif kind == "composes-merge_all":
        ok, detail = composes_merge_all(node)
        add(f"{label}/lockdisc/composes-merge_all", ok, detail)
    elif kind.startswith("returns:"):
        ok, detail = returns_call_of(node, kind.split(":", 1)[1])
        add(f"{label}/lockdisc/returns-{kind.split(':', 1)[1]}", ok, detail)
    race = desc.get("race") or name
    for r in results:
        if r["verdict"] == "refuted":
            r["replay_info"] = {"runner": "racerun.py", "module": "-", "name": race, "mode": "replay"}
    rep = {
        "unit": label + (f"[{name}]" if name else ""),
        "kind": "K7 lock discipline (guarded_by contracts on the AST)",
        "functions": functions,
        "results": results,
        "unsupported": unsupported,
        "spec_validation": [],
        "bounded": [],
        "seconds": time.time() - t0,
    }
    from . import lockset
    if unsupported:
        lockset.standin(rep, label, race, desc.get("prop", "C43"))
    elif desc.get("tier") == "thorough" and kind == "locks":
        lockset.bounded_entry(results, rep["bounded"], label, race, desc.get("prop", "C43"))
    rep["seconds"] = time.time() - t0
    return rep
