"""Spec machines for the time-boundary operators (C17) and the clock-reading ones (C15 part).  Time is virtual: every
step happens at one instant `out.now()`; `out.schedule_relative(d)` / `out.schedule_absolute(t)` set a timer, whose firing
is the method named in the contract's `timers`."""
from reactivex.operators._timeinterval import TimeInterval
from reactivex.operators._timestamp import Timestamp


class take_with_time:
    """the elements that arrive before subscription time + duration; completes at that instant"""

    def init(s):
        s.term = False
        s.clock = 0

    def done(s):
        return s.term

    def on_subscribe(s, out):
        out.schedule_relative(s.duration)

    def on_next(s, out, x):
        out.on_next(x)

    def on_end(s, out):
        s.term = True
        out.on_completed()


class skip_with_time:
    """the elements that arrive after subscription time + duration"""

    def init(s):
        s.open = False
        s.clock = 0

    def on_subscribe(s, out):
        out.schedule_relative(s.duration)

    def on_next(s, out, x):
        if s.open:
            out.on_next(x)

    def on_open(s, out):
        s.open = True


class take_until_with_time:
    """the elements that arrive before the end time (absolute, or relative to subscription); completes then"""

    def init(s):
        s.term = False
        s.clock = 0

    def done(s):
        return s.term

    def on_subscribe(s, out):
        if s.absolute:
            out.schedule_absolute(s.end_time)
        else:
            out.schedule_relative(s.end_time)

    def on_next(s, out, x):
        out.on_next(x)

    def on_end(s, out):
        s.term = True
        out.on_completed()


class skip_until_with_time:
    """the elements that arrive after the start time (absolute, or relative to subscription)"""

    def init(s):
        s.open = False
        s.clock = 0

    def on_subscribe(s, out):
        if s.absolute:
            out.schedule_absolute(s.start_time)
        else:
            out.schedule_relative(s.start_time)

    def on_next(s, out, x):
        if s.open:
            out.on_next(x)

    def on_open(s, out):
        s.open = True


class throttle_first:
    """an element passes iff at least window_duration has passed since the last element that passed"""

    def init(s):
        s.has = False
        s.last = 0
        s.clock = 0

    def on_next(s, out, x):
        now = out.now()
        if not s.has or now - s.last >= s.window_duration:
            s.has = True
            s.last = now
            out.on_next(x)


class timestamp:
    """every element with the scheduler's clock reading at its arrival"""

    def init(s):
        s.clock = 0

    def on_next(s, out, x):
        out.on_next(Timestamp(value=x, timestamp=out.now()))


class time_interval:
    """every element with the time since the previous element (since subscription for the first)"""

    def init(s):
        s.last = 0
        s.clock = 0

    def on_subscribe(s, out):
        s.last = out.now()

    def on_next(s, out, x):
        now = out.now()
        span = now - s.last
        s.last = now
        out.on_next(TimeInterval(value=x, interval=span))


class debounce:
    """an element is emitted one due time after it arrived iff no newer element arrived meanwhile (a newer element cancels the
    pending timer); completion flushes the pending element; an error drops it"""

    def init(s):
        s.has = False
        s.val = None
        s.gen = 0
        s.term = False
        s.clock = 0

    def done(s):
        return s.term

    def on_next(s, out, x):
        s.has = True
        s.val = x
        if s.gen > 0:
            out.dispose_previous()  # the timer of the previous element, if still pending, is cancelled
        s.gen += 1
        out.schedule_relative(s.duetime)

    def on_fire(s, out, k):
        # only the timer of the newest element can still be pending
        if s.has and s.gen == k:
            out.on_next(s.val)
        s.has = False

    def on_error(s, out, e):
        if s.gen > 0:
            out.dispose_previous()
        s.term = True
        out.on_error(e)

    def on_completed(s, out):
        if s.gen > 0:
            out.dispose_previous()
        s.term = True
        if s.has:
            out.on_next(s.val)
        out.on_completed()


class sample:
    """at every tick of the sampler the latest element not yet sampled is emitted; after the source completed the next tick
    completes.  Source 0 is the sampled source, source 1 the sampler (its elements and its completion are both ticks)."""

    def init(s):
        s.has = False
        s.val = None
        s.at_end = False
        s.term = False

    def done(s):
        return s.term

    def tick(s, out):
        if s.has:
            s.has = False
            out.on_next(s.val)
        if s.at_end:
            s.term = True
            out.on_completed()

    def on_next(s, out, i, x):
        if i == 0:
            s.has = True
            s.val = x
        else:
            s.tick(out)

    def on_error(s, out, i, e):
        s.term = True
        out.on_error(e)

    def on_completed(s, out, i):
        if i == 0:
            s.at_end = True
        else:
            s.tick(out)


class timeout:
    """the source is mirrored until the time since subscription or since the last element reaches the due time; then the
    source is released and the fallback takes over (the subscriber is handed to it); never after the source terminated"""

    def init(s):
        s.gen = 0
        s.switched = False
        s.term = False
        s.clock = 0

    def done(s):
        return s.term or s.switched

    def arm(s, out):
        if s.absolute:
            out.schedule_absolute(s.duetime)
        else:
            out.schedule_relative(s.duetime)

    def on_subscribe(s, out):
        s.arm(out)

    def on_next(s, out, i, x):
        # (source 0 is the watched source; source 1, the fallback, gets the subscriber itself once it takes over)
        s.gen += 1
        out.on_next(x)
        s.arm(out)
        out.dispose_previous()  # the new timer replaces the pending one, which is cancelled

    def on_error(s, out, i, e):
        s.gen += 1
        s.term = True
        out.on_error(e)

    def on_completed(s, out, i):
        s.gen += 1
        s.term = True
        out.on_completed()

    def on_fire(s, out, k):
        if s.gen == k:
            s.switched = True
            out.subscribe_source(1)  # the subscriber is handed to the fallback ...
            out.dispose_source(0)    # ... and the source's subscription is released


class timeout_with_mapper_defaults(timeout_with_mapper):
    """first timeout and fallback omitted: nothing is due before the first element; a timeout fails the sequence with Exception("Timeout")"""

    def on_subscribe(s, out):
        out.subscribe(out.never())
        out.subscribe_source(0)

    def switch(s, out):
        s.switched = True
        out.subscribe(out.throw(Exception("Timeout")))
        out.dispose_source(0)


class timeout_failing(timeout):
    """no fallback was given: at the due time the sequence fails with Exception("Timeout") - the subscriber is handed to throw(that)"""

    def on_fire(s, out, k):
        if s.gen == k:
            s.switched = True
            out.subscribe(out.throw(Exception("Timeout")))
            out.dispose_source(0)


class delay_subscription:
    """the subscriber is handed to the source itself, duetime later (or at the absolute time): the whole sequence is shifted"""

    def init(s):
        s.clock = 0

    def on_subscribe(s, out):
        if s.absolute:
            out.schedule_absolute(s.duetime)
        else:
            out.schedule_relative(s.duetime)

    def on_fire(s, out):
        out.subscribe_source(0)
        out.cancel_timer()  # the subscription replaces the (spent) timer handle in the serial disposable


class throttle_with_mapper:
    """the pending element is emitted when the observable its mapper returned for it first emits or completes - unless a newer
    element arrived meanwhile (which replaces it and releases the older throttle); completion flushes the pending element; an error
    of the source, of the mapper or of a throttle ends the sequence at once"""

    def init(s):
        s.has = False
        s.val = None
        s.gen = 0
        s.term = False

    def done(s):
        return s.term

    def on_next(s, out, x):
        try:
            d = s.mapper(x)
        except Exception as e:
            s.term = True
            out.on_error(e)
            return
        s.has = True
        s.val = x
        s.gen += 1
        if s.gen > 1:
            out.dispose_previous()  # the throttle of the previous element is released (the new element is already the pending one)
        out.subscribe(d)

    def fire(s, out, k):
        # only the throttle of the newest element can still be subscribed
        if s.has and s.gen == k:
            out.on_next(s.val)
        s.has = False

    def throttle_next(s, out, k, _):
        s.fire(out, k)

    def throttle_completed(s, out, k):
        s.fire(out, k)

    def throttle_error(s, out, k, e):
        s.term = True
        out.on_error(e)

    def on_error(s, out, e):
        if s.gen > 0:
            out.dispose_previous()
        s.term = True
        out.on_error(e)

    def on_completed(s, out):
        if s.gen > 0:
            out.dispose_previous()
        s.term = True
        if s.has:
            out.on_next(s.val)
        out.on_completed()


class timeout_with_mapper:
    """source 0 is mirrored; it is watched by one timeout observable at a time: first_timeout (source 2) until the first element,
    then the observable mapper(x) returned for the newest element x (an element releases the previous timeout).  When the timeout
    that is being watched first emits or completes - before the next notification of the source - the subscriber is handed to the
    fallback (source 1) and the source is released: ONCE.  An error of that timeout, of the mapper or of the source ends the
    sequence.  Timeouts of older generations are stale: nothing happens."""

    def init(s):
        s.gen = 0
        s.switched = False
        s.term = False

    def done(s):
        return s.term or s.switched

    def on_subscribe(s, out):
        # the first timeout is watched before the source is subscribed
        out.subscribe_source(2)
        out.subscribe_source(0)

    def switch(s, out):
        s.switched = True
        out.subscribe_source(1)  # the subscriber is handed to the fallback ...
        out.dispose_source(0)    # ... and the source's subscription is released

    def on_next(s, out, i, x):
        if i == 0:
            s.gen += 1
            out.on_next(x)
            if s.mapper is None:
                d = out.never()  # no mapper: "there is no due time after this element" - the timeout that is watched never fires
            else:
                try:
                    d = s.mapper(x)
                except Exception as e:
                    s.term = True
                    out.on_error(e)
                    return
            out.dispose_previous()
            out.subscribe(d)
        elif i == 2:
            if s.gen == 0:
                s.switch(out)
            out.dispose_source(2)

    def on_error(s, out, i, e):
        if i == 0:
            s.gen += 1
            s.term = True
            out.on_error(e)
        elif i == 2 and s.gen == 0:
            s.term = True
            out.on_error(e)

    def on_completed(s, out, i):
        if i == 0:
            s.gen += 1
            s.term = True
            out.on_completed()
        elif i == 2 and s.gen == 0:
            s.switch(out)

    def timeout_next(s, out, k, _):
        if k == s.gen:
            s.switch(out)

    def timeout_completed(s, out, k):
        if k == s.gen:
            s.switch(out)

    def timeout_error(s, out, k, e):
        if k == s.gen:
            s.term = True
            out.on_error(e)
