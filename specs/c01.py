"""Spec machines for C01/C03: the wrapper that Observable.subscribe puts around every subscriber.

Ghost `term`: a terminal user callback (on_error / on_completed) has been invoked.  The grammar
`on_next* (on_error | on_completed)?` is the assertion `not s.term` in front of every user
callback; the coupling invariant carries `term => stopped`.  The subscription is disposed on both
normal and exceptional exit of a terminal callback; `dispose()` stops the observer for good."""


class auto_detach:
    def on_next(s, v):
        if not s.stopped:
            assert not s.term
            s.cb_next(v)

    def on_error(s, e):
        if not s.stopped:
            s.stopped = True
            assert not s.term
            s.term = True
            try:
                s.cb_error(e)
            finally:
                s.sub.dispose()

    def on_completed(s):
        if not s.stopped:
            s.stopped = True
            assert not s.term
            s.term = True
            try:
                s.cb_completed()
            finally:
                s.sub.dispose()

    def set_disposable(s, d):
        s.sub.disposable = d

    def dispose(s):
        s.stopped = True
        s.sub.dispose()

    def fail(s, e):
        if s.stopped:
            return False
        s.stopped = True
        assert not s.term
        s.term = True
        s.cb_error(e)
        return True


class observer:
    """reactivex.observer.Observer: the same gate without a subscription"""

    def on_next(s, v):
        if not s.stopped:
            assert not s.term
            s.cb_next(v)

    def on_error(s, e):
        if not s.stopped:
            s.stopped = True
            assert not s.term
            s.term = True
            s.cb_error(e)

    def on_completed(s):
        if not s.stopped:
            s.stopped = True
            assert not s.term
            s.term = True
            s.cb_completed()

    def dispose(s):
        s.stopped = True

    def fail(s, e):
        if s.stopped:
            return False
        s.stopped = True
        assert not s.term
        s.term = True
        s.cb_error(e)
        return True
