"""Spec machines for C40 (side-effect operators: the sequence passes unchanged unless a callback raises)."""


class do_action:
    """h and its terminal unchanged; each callback sees its notification first; a raising callback ends in on_error"""

    def init(s):
        s.term = False

    def done(s):
        return s.term

    def on_next(s, out, x):
        if s.next_action:
            try:
                s.next_action(x)
            except Exception as e:
                s.term = True
                out.on_error(e)
                return
        out.on_next(x)

    def on_error(s, out, e):
        s.term = True
        if s.error_action:
            try:
                s.error_action(e)
            except Exception as e2:
                out.on_error(e2)
                return
        out.on_error(e)

    def on_completed(s, out):
        s.term = True
        if s.completed_action:
            try:
                s.completed_action()
            except Exception as e:
                out.on_error(e)
                return
        out.on_completed()

    @staticmethod
    def ref(h, t, next_action, error_action, completed_action):
        out = []
        for x in h:
            if next_action:
                try:
                    next_action(x)
                except Exception as e:
                    return out, ("error", e)
            out.append(x)
        try:
            if t == "completed" and completed_action:
                completed_action()
            elif isinstance(t, tuple) and error_action:
                error_action(t[1])
        except Exception as e:
            return out, ("error", e)
        return out, t


class do_after_next:
    """h unchanged; the action sees each element after the subscriber did; a raising action ends in on_error"""

    def init(s):
        s.term = False

    def done(s):
        return s.term

    def on_next(s, out, x):
        out.on_next(x)
        try:
            s.after_next_action(x)
        except Exception as e:
            s.term = True
            out.on_error(e)

    @staticmethod
    def ref(h, t, after_next_action):
        out = []
        for x in h:
            out.append(x)
            try:
                after_next_action(x)
            except Exception as e:
                return out, ("error", e)
        return out, t


class do_on_terminate:
    """h unchanged; the action runs before the terminal is passed on; if it raises, its exception is the terminal"""

    def init(s):
        s.term = False

    def done(s):
        return s.term

    def on_next(s, out, x):
        out.on_next(x)

    def on_error(s, out, e):
        s.term = True
        try:
            s.terminate_action()
        except Exception as e2:
            out.on_error(e2)
            return
        out.on_error(e)

    def on_completed(s, out):
        s.term = True
        try:
            s.terminate_action()
        except Exception as e:
            out.on_error(e)
            return
        out.on_completed()

    @staticmethod
    def ref(h, t, terminate_action):
        if t == "live":
            return list(h), t
        try:
            terminate_action()
        except Exception as e:
            return list(h), ("error", e)
        return list(h), t


class do_after_terminate:
    """h and its terminal unchanged; the action runs after the terminal was passed on (whatever it does is unobservable)"""

    def init(s):
        s.term = False

    def done(s):
        return s.term

    def on_next(s, out, x):
        out.on_next(x)

    def on_error(s, out, e):
        s.term = True
        out.on_error(e)
        try:
            s.terminate_action()
        except Exception:
            pass

    def on_completed(s, out):
        s.term = True
        out.on_completed()
        try:
            s.terminate_action()
        except Exception:
            pass

    @staticmethod
    def ref(h, t, terminate_action):
        return list(h), t
