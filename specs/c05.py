"""Spec machines for C05 (element-wise operators = list semantics) - see specs/__init__.py."""
from reactivex.internal.exceptions import ArgumentOutOfRangeException
from reactivex.notification import OnCompleted, OnError, OnNext


class take:
    def init(s):
        s.n = 0

    def valid(s):
        return s.n >= 0

    def done(s):
        return s.n >= s.count

    def on_subscribe(s, out):
        if s.count == 0:
            out.on_completed()

    def on_next(s, out, x):
        if s.n < s.count:
            s.n += 1
            out.on_next(x)
            if s.n == s.count:
                out.on_completed()

    @staticmethod
    def ref(h, t, count):
        if len(h) >= count:
            return h[:count], "completed"
        return h[:count], t


class skip:
    def init(s):
        s.n = 0

    def on_next(s, out, x):
        if s.n >= s.count:
            out.on_next(x)
        s.n += 1

    @staticmethod
    def ref(h, t, count):
        return h[count:], t


class skip_last:
    """emits h[:len(h)-count] (nothing while fewer than count+1 elements arrived)."""

    def init(s):
        s.q = []

    def on_next(s, out, x):
        s.q.append(x)
        if len(s.q) > s.count:
            out.on_next(s.q.pop(0))

    @staticmethod
    def ref(h, t, count):
        return h[: max(len(h) - count, 0)], t


class take_last:
    def init(s):
        s.q = []

    def on_next(s, out, x):
        s.q.append(x)
        if len(s.q) > s.count:
            s.q.pop(0)

    def on_completed(s, out):
        for x in s.q:
            out.on_next(x)
        out.on_completed()

    @staticmethod
    def ref(h, t, count):
        if t == "completed":
            return (h[-count:] if count > 0 else []), t
        return [], t


class filter:
    def init(s):
        s.failed = False

    def done(s):
        return s.failed

    def on_next(s, out, x):
        try:
            keep = s.predicate(x)
        except Exception as e:
            s.failed = True
            out.on_error(e)
            return
        if keep:
            out.on_next(x)

    @staticmethod
    def ref(h, t, predicate):
        out = []
        for x in h:
            try:
                if predicate(x):
                    out.append(x)
            except Exception as e:
                return out, ("error", e)
        return out, t


class map:
    def init(s):
        s.failed = False

    def done(s):
        return s.failed

    def on_next(s, out, x):
        if s.mapper is None:
            out.on_next(x)  # no mapper: every element as it is
            return
        try:
            y = s.mapper(x)
        except Exception as e:
            s.failed = True
            out.on_error(e)
            return
        out.on_next(y)

    @staticmethod
    def ref(h, t, mapper):
        out = []
        for x in h:
            try:
                out.append(mapper(x) if mapper is not None else x)
            except Exception as e:
                return out, ("error", e)
        return out, t


class filter_indexed:
    def init(s):
        s.failed = False
        s.i = 0

    def done(s):
        return s.failed

    def on_next(s, out, x):
        keep = True
        if s.predicate_indexed:
            try:
                keep = s.predicate_indexed(x, s.i)
            except Exception as e:
                s.failed = True
                out.on_error(e)
                return
            s.i += 1
        if keep:
            out.on_next(x)

    @staticmethod
    def ref(h, t, predicate_indexed):
        if predicate_indexed is None:
            return list(h), t
        out = []
        for i, x in enumerate(h):
            try:
                if predicate_indexed(x, i):
                    out.append(x)
            except Exception as e:
                return out, ("error", e)
        return out, t


class take_while:
    """itertools.takewhile (plus the failing element when inclusive), completing at the first failing element"""

    def init(s):
        s.stopped = False

    def done(s):
        return s.stopped

    def on_next(s, out, x):
        try:
            ok = s.predicate(x)
        except Exception as e:
            s.stopped = True
            out.on_error(e)
            return
        if ok:
            out.on_next(x)
        else:
            s.stopped = True
            if s.inclusive:
                out.on_next(x)
            out.on_completed()

    @staticmethod
    def ref(h, t, predicate, inclusive):
        out = []
        for x in h:
            try:
                ok = predicate(x)
            except Exception as e:
                return out, ("error", e)
            if not ok:
                if inclusive:
                    out.append(x)
                return out, "completed"
            out.append(x)
        return out, t


class take_while_indexed:
    def init(s):
        s.stopped = False
        s.i = 0

    def done(s):
        return s.stopped

    def on_next(s, out, x):
        try:
            ok = s.predicate(x, s.i)
        except Exception as e:
            s.stopped = True
            out.on_error(e)
            return
        s.i += 1
        if ok:
            out.on_next(x)
        else:
            s.stopped = True
            if s.inclusive:
                out.on_next(x)
            out.on_completed()

    @staticmethod
    def ref(h, t, predicate, inclusive):
        out = []
        for i, x in enumerate(h):
            try:
                ok = predicate(x, i)
            except Exception as e:
                return out, ("error", e)
            if not ok:
                if inclusive:
                    out.append(x)
                return out, "completed"
            out.append(x)
        return out, t


class skip_while:
    """itertools.dropwhile"""

    def init(s):
        s.running = False
        s.failed = False

    def done(s):
        return s.failed

    def on_next(s, out, x):
        if not s.running:
            try:
                s.running = not s.predicate(x)
            except Exception as e:
                s.failed = True
                out.on_error(e)
                return
        if s.running:
            out.on_next(x)

    @staticmethod
    def ref(h, t, predicate):
        out = []
        running = False
        for x in h:
            if not running:
                try:
                    running = not predicate(x)
                except Exception as e:
                    return out, ("error", e)
            if running:
                out.append(x)
        return out, t


class distinct_until_changed:
    def init(s):
        s.has = False
        s.cur = None
        s.failed = False

    def done(s):
        return s.failed

    def on_next(s, out, x):
        try:
            key = s.key_mapper(x) if s.key_mapper else x
        except Exception as e:
            s.failed = True
            out.on_error(e)
            return
        same = False
        if s.has:
            try:
                same = s.comparer(s.cur, key) if s.comparer else s.cur == key
            except Exception as e:
                s.failed = True
                out.on_error(e)
                return
        if not s.has or not same:
            s.has = True
            s.cur = key
            out.on_next(x)

    @staticmethod
    def ref(h, t, key_mapper, comparer):
        out = []
        last = []  # key of the last EMITTED element
        for x in h:
            try:
                k = key_mapper(x) if key_mapper else x
                if last and (comparer(last[0], k) if comparer else last[0] == k):
                    continue
            except Exception as e:
                return out, ("error", e)
            last = [k]
            out.append(x)
        return out, t


class pairwise:
    def init(s):
        s.has = False
        s.prev = None

    def on_next(s, out, x):
        had, prev = s.has, s.prev
        s.has = True
        s.prev = x
        if had:
            out.on_next((prev, x))

    @staticmethod
    def ref(h, t):
        return list(zip(h, h[1:])), t


class default_if_empty:
    def init(s):
        s.found = False

    def on_next(s, out, x):
        s.found = True
        out.on_next(x)

    def on_completed(s, out):
        if not s.found:
            out.on_next(s.default_value)
        out.on_completed()

    @staticmethod
    def ref(h, t, default_value):
        if t == "completed" and not h:
            return [default_value], t
        return list(h), t


class ignore_elements:
    def init(s):
        pass

    def on_next(s, out, x):
        pass

    @staticmethod
    def ref(h, t):
        return [], t


class take_last_buffer:
    def init(s):
        s.q = []

    def on_next(s, out, x):
        s.q.append(x)
        if len(s.q) > s.count:
            s.q.pop(0)

    def on_completed(s, out):
        out.on_next(list(s.q))
        out.on_completed()

    @staticmethod
    def ref(h, t, count):
        if t == "completed":
            return [h[-count:] if count > 0 else []], t
        return [], t


class element_at_or_default:
    def init(s):
        s.n = 0
        s.found = False

    def done(s):
        return s.found

    def on_next(s, out, x):
        hit = s.n == s.index
        s.n += 1
        if hit:
            s.found = True
            out.on_next(x)
            out.on_completed()

    def on_completed(s, out):
        if s.has_default:
            out.on_next(s.default_value)
            out.on_completed()
        else:
            out.on_error(ArgumentOutOfRangeException())

    @staticmethod
    def ref(h, t, index, has_default, default_value):
        if len(h) > index:
            return [h[index]], "completed"
        if t == "completed":
            if has_default:
                return [default_value], t
            return [], ("error", ArgumentOutOfRangeException())
        return [], t


class find_value:
    def init(s):
        s.i = 0
        s.found = False

    def done(s):
        return s.found

    def on_next(s, out, x):
        try:
            hit = s.predicate(x, s.i, s.source)
        except Exception as e:
            s.found = True
            out.on_error(e)
            return
        if hit:
            s.found = True
            out.on_next(s.i if s.yield_index else x)
            out.on_completed()
        else:
            s.i += 1

    def on_completed(s, out):
        out.on_next(-1 if s.yield_index else None)
        out.on_completed()

    @staticmethod
    def ref(h, t, predicate, yield_index):
        for i, x in enumerate(h):
            try:
                if predicate(x, i, None):
                    return [i if yield_index else x], "completed"
            except Exception as e:
                return [], ("error", e)
        if t == "completed":
            return [-1 if yield_index else None], t
        return [], t


class materialize:
    def init(s):
        pass

    def on_next(s, out, x):
        out.on_next(OnNext(x))

    def on_error(s, out, e):
        out.on_next(OnError(e))
        out.on_completed()

    def on_completed(s, out):
        out.on_next(OnCompleted())
        out.on_completed()

    @staticmethod
    def ref(h, t):
        out = [OnNext(x) for x in h]
        if t == "completed":
            return out + [OnCompleted()], "completed"
        if isinstance(t, tuple):
            return out + [OnError(t[1])], "completed"
        return out, t


class dematerialize:
    """input elements are Notification objects"""

    def init(s):
        s.ended = False

    def done(s):
        return s.ended

    def on_next(s, out, x):
        if x.kind == "N":
            out.on_next(x.value)
        elif x.kind == "E":
            s.ended = True
            out.on_error(x.exception)
        else:
            s.ended = True
            out.on_completed()

    @staticmethod
    def ref(h, t):
        out = []
        for n in h:
            if n.kind == "N":
                out.append(n.value)
            elif n.kind == "E":
                return out, ("error", n.exception)
            else:
                return out, "completed"
        return out, t


class pluck:
    """[x[key] for x in h]"""

    def init(s):
        s.failed = False

    def done(s):
        return s.failed

    def on_next(s, out, x):
        try:
            y = x[s.key]
        except Exception as e:
            s.failed = True
            out.on_error(e)
            return
        out.on_next(y)

    @staticmethod
    def ref(h, t, key):
        out = []
        for x in h:
            try:
                out.append(x[key])
            except Exception as e:
                return out, ("error", e)
        return out, t


class starmap:
    """list(itertools.starmap(mapper, h)); without a mapper the tuples pass unchanged"""

    def init(s):
        s.failed = False

    def done(s):
        return s.failed

    def on_next(s, out, x):
        if s.mapper is None:
            out.on_next(x)
            return
        try:
            y = s.mapper(*x)
        except Exception as e:
            s.failed = True
            out.on_error(e)
            return
        out.on_next(y)

    @staticmethod
    def ref(h, t, mapper):
        import itertools
        if mapper is None:
            return list(h), t
        out = []
        it = itertools.starmap(mapper, h)
        while True:
            try:
                out.append(next(it))
            except StopIteration:
                return out, t
            except Exception as e:
                return out, ("error", e)


def seen_match(seen, key, comparer):
    """does the comparer accept one of the stored keys?  They are asked in order (an exception of the comparer propagates)."""
    for a in seen:
        if (comparer(a, key) if comparer is not None else a == key):
            return True
    return False


class distinct:
    """an element passes iff no earlier element that passed has a key the comparer accepts as equal to its key (keys by
    key_mapper, default: the element; comparer default: ==); a raising key_mapper / comparer ends the sequence with that error"""

    def init(s):
        s.seen = []
        s.failed = False

    def done(s):
        return s.failed

    def on_next(s, out, x):
        key = x
        if s.key_mapper is not None:
            try:
                key = s.key_mapper(x)
            except Exception as e:
                s.failed = True
                out.on_error(e)
                return
        try:
            found = seen_match(s.seen, key, s.comparer)
        except Exception as e:
            s.failed = True
            out.on_error(e)
            return
        if not found:
            s.seen.append(key)
            out.on_next(x)

    @staticmethod
    def ref(h, t, key_mapper, comparer):
        out, seen = [], []
        for x in h:
            try:
                k = key_mapper(x) if key_mapper is not None else x
                dup = any((comparer(a, k) if comparer is not None else a == k) for a in seen)
            except Exception as e:
                return out, ("error", e)
            if not dup:
                seen.append(k)
                out.append(x)
        return out, t
