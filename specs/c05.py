"""Spec machines for C05 (element-wise operators = list semantics) - see specs/__init__.py."""


class take:
    def init(s):
        s.n = 0

    def done(s):
        return s.n >= s.count

    def on_subscribe(s, out):
        if s.count == 0:
            out.on_completed()

    def on_next(s, out, x):
        if s.n < s.count:
            s.n += 1
            out.on_next(x)
            if s.n == s.count:
                out.on_completed()

    @staticmethod
    def ref(h, t, count):
        if len(h) >= count:
            return h[:count], "completed"
        return h[:count], t


class skip:
    def init(s):
        s.n = 0

    def on_next(s, out, x):
        if s.n >= s.count:
            out.on_next(x)
        s.n += 1

    @staticmethod
    def ref(h, t, count):
        return h[count:], t


class skip_last:
    """emits h[:len(h)-count] (nothing while fewer than count+1 elements arrived)."""

    def init(s):
        s.q = []

    def on_next(s, out, x):
        s.q.append(x)
        if len(s.q) > s.count:
            out.on_next(s.q.pop(0))

    @staticmethod
    def ref(h, t, count):
        return h[: max(len(h) - count, 0)], t


class take_last:
    def init(s):
        s.q = []

    def on_next(s, out, x):
        s.q.append(x)
        if len(s.q) > s.count:
            s.q.pop(0)

    def on_completed(s, out):
        for x in s.q:
            out.on_next(x)
        out.on_completed()

    @staticmethod
    def ref(h, t, count):
        if t == "completed":
            return (h[-count:] if count > 0 else []), t
        return [], t


class filter:
    def init(s):
        s.failed = False

    def done(s):
        return s.failed

    def on_next(s, out, x):
        try:
            keep = s.predicate(x)
        except Exception as e:
            s.failed = True
            out.on_error(e)
            return
        if keep:
            out.on_next(x)

    @staticmethod
    def ref(h, t, predicate):
        out = []
        for x in h:
            try:
                if predicate(x):
                    out.append(x)
            except Exception as e:
                return out, ("error", e)
        return out, t


class map:
    def init(s):
        s.failed = False

    def done(s):
        return s.failed

    def on_next(s, out, x):
        try:
            y = s.mapper(x)
        except Exception as e:
            s.failed = True
            out.on_error(e)
            return
        out.on_next(y)

    @staticmethod
    def ref(h, t, mapper):
        out = []
        for x in h:
            try:
                out.append(mapper(x))
            except Exception as e:
                return out, ("error", e)
        return out, t
