"""Spec machines for C11 (merging) and C12 (switching).  The elements of the outer source are
themselves observables; `out.subscribe(inner)` is the spec primitive "subscribe to this inner now".
Inner events are delivered to `inner_next / inner_error / inner_completed` (switching: with the
inner's arrival number k)."""


class merge_all:
    """every inner is subscribed on arrival; elements pass through at once; completes when the outer and
    every inner completed; the first error ends everything"""

    def init(s):
        s.active = 0
        s.stopped = False
        s.term = False

    def done(s):
        return s.term

    def on_next(s, out, inner):
        s.active += 1
        out.subscribe(inner)

    def on_error(s, out, e):
        s.term = True
        out.on_error(e)

    def on_completed(s, out):
        s.stopped = True
        if s.active == 0:
            s.term = True
            out.on_completed()

    def inner_next(s, out, x):
        out.on_next(x)

    def inner_error(s, out, e):
        s.term = True
        out.on_error(e)

    def inner_completed(s, out):
        s.active -= 1
        if s.stopped and s.active == 0:
            s.term = True
            out.on_completed()


class merge_concurrent:
    """at most max_concurrent inners subscribed; the others wait in arrival order"""

    def init(s):
        s.active = 0
        s.q = []
        s.stopped = False
        s.term = False

    def done(s):
        return s.term

    def on_next(s, out, inner):
        if s.active < s.max_concurrent:
            s.active += 1
            out.subscribe(inner)
        else:
            s.q.append(inner)

    def on_error(s, out, e):
        s.term = True
        out.on_error(e)

    def on_completed(s, out):
        s.stopped = True
        if s.active == 0:
            s.term = True
            out.on_completed()

    def inner_next(s, out, x):
        out.on_next(x)

    def inner_error(s, out, e):
        s.term = True
        out.on_error(e)

    def inner_completed(s, out):
        if len(s.q) > 0:
            out.subscribe(s.q.pop(0))
        else:
            s.active -= 1
            if s.stopped and s.active == 0:
                s.term = True
                out.on_completed()


class switch_latest:
    """only the most recently arrived inner (number n) is forwarded; completes when the outer completed and
    the latest inner completed"""

    def init(s):
        s.n = 0
        s.has_latest = False
        s.stopped = False
        s.term = False

    def done(s):
        return s.term

    def on_next(s, out, inner):
        # the new inner IS the latest one from the moment it arrives: releasing the previous inner runs foreign code (dispose actions)
        # that may push the next inner into the operator - which then must be newer than this one
        s.n += 1
        s.has_latest = True
        if s.n > 1:
            out.dispose_previous()  # the previous inner is unsubscribed before the new one is subscribed
        out.subscribe(inner)

    def on_error(s, out, e):
        s.term = True
        out.on_error(e)

    def on_completed(s, out):
        s.stopped = True
        if not s.has_latest:
            s.term = True
            out.on_completed()

    def inner_next(s, out, k, x):
        if k == s.n:
            out.on_next(x)

    def inner_error(s, out, k, e):
        if k == s.n:
            s.term = True
            out.on_error(e)

    def inner_completed(s, out, k):
        if k == s.n:
            s.has_latest = False
            if s.stopped:
                s.term = True
                out.on_completed()
