"""Spec machines for C19 (grouping).  `s.live` maps a key to the subject ("writer") of its live group; `out.new_subject()`
creates the subject of a new group, `out.group(key, writer, shares)` is the grouped observable handed out for it (shares:
subscribing to it takes a share of the operator's ref-counted subscription), `out.subscribe(d)` starts watching a duration.
Calls on a writer are what the subscribers of that group see (Subject contract, C20).

group_by_until: a new group is emitted the first time a key is seen, or seen again after its group expired; every element
goes to exactly the group of its key, in arrival order (after the element mapper); a group expires - its writer completes and
its key leaves the map - at the first element or the completion of its duration; the source's terminal notification, a
failing user function and a failing duration end every open group and the output with that notification."""
from collections import OrderedDict


class group_by_until:
    def init(s):
        s.live = OrderedDict()
        s.term = False

    def done(s):
        return s.term

    def fail(s, out, e):
        for w in list(s.live.values()):
            w.on_error(e)
        s.term = True
        out.on_error(e)

    def on_next(s, out, x):
        try:
            k = s.key_mapper(x)
        except Exception as e:
            s.fail(out, e)
            return
        w = s.live.get(k)
        if w is None:
            try:
                w = out.new_subject() if s.subject_mapper is None else s.subject_mapper()
            except Exception as e:
                s.fail(out, e)
                return
            s.live[k] = w
            try:
                d = s.duration_mapper(out.group(k, w, False))
            except Exception as e:
                s.fail(out, e)
                return
            out.on_next(out.group(k, w, True))
            out.subscribe(d)
        try:
            el = x if s.element_mapper is None else s.element_mapper(x)
        except Exception as e:
            s.fail(out, e)
            return
        w.on_next(el)

    def on_error(s, out, e):
        s.fail(out, e)

    def on_completed(s, out):
        for w in list(s.live.values()):
            w.on_completed()
        s.term = True
        out.on_completed()

    # the duration of the group of key k
    def expire(s, out, k):
        w = s.live[k]
        del s.live[k]
        w.on_completed()

    def duration_next(s, out, k, x):
        s.expire(out, k)

    def duration_completed(s, out, k):
        s.expire(out, k)

    def duration_error(s, out, k, e):
        s.fail(out, e)
