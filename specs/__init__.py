"""Spec library (DESIGN §2.3): abstract state machines over ghost state.

Every spec class is written in the Python subset that (a) CPython runs natively - that face
is the *executable twin*, validated on every run against the literal Python list expression
in `reference(...)` on an exhaustive small scope and used as the oracle of replays - and
(b) the rxvc interpreter executes symbolically - that face gives the postconditions of the
real handlers.  One text, two faces.

Conventions: parameters of the operator are set as attributes on `s` before `init`;
`out` is the downstream observer (on_next/on_error/on_completed); handlers that a class does
not define default to pass-through (`on_error` -> `out.on_error(e)`, `on_completed` ->
`out.on_completed()`); `done(s)` (optional) says that the operator already terminated
downstream, after which nothing it emits is observable (C01).
"""
