"""Spec machines for the subjects (C20, C21, C23): abstract state + what every call delivers to whom.

state: 0 live, 1 completed, 2 errored, 3 disposed.   obs: the observers subscribed right now, in
subscription order.  Broadcasts iterate a snapshot (`list(s.obs)`): exactly the observers
subscribed when the call is made."""
from reactivex.internal.exceptions import DisposedException


class subject:
    def subscribe(s, o, sch=None):  # (the scheduler a subscriber brings along changes nothing)
        if s.state == 3:
            raise DisposedException()
        if s.state == 0:
            s.obs.append(o)
        elif s.state == 2:
            o.on_error(s.err)
        else:
            o.on_completed()

    def unsubscribe(s, o):
        if s.state != 3:
            if o in s.obs:
                s.obs.remove(o)

    def on_next(s, v):
        if s.state == 3:
            raise DisposedException()
        if s.state == 0:
            for o in list(s.obs):
                o.on_next(v)

    def on_error(s, e):
        if s.state == 3:
            raise DisposedException()
        if s.state == 0:
            snapshot = list(s.obs)
            s.state = 2
            s.err = e
            s.obs.clear()
            for o in snapshot:
                o.on_error(e)

    def on_completed(s):
        if s.state == 3:
            raise DisposedException()
        if s.state == 0:
            snapshot = list(s.obs)
            s.state = 1
            s.obs.clear()
            for o in snapshot:
                o.on_completed()

    def dispose(s):
        s.state = 3
        s.obs = []
        s.err = None


class behavior_subject(subject):
    """+ value: the last on_next value, or the initial value; handed to every new subscriber first"""

    def subscribe(s, o, sch=None):  # (the scheduler a subscriber brings along changes nothing)
        if s.state == 3:
            raise DisposedException()
        if s.state == 0:
            s.obs.append(o)
            o.on_next(s.value)
        elif s.state == 2:
            o.on_error(s.err)
        else:
            o.on_completed()

    def on_next(s, v):
        if s.state == 3:
            raise DisposedException()
        if s.state == 0:
            s.value = v
            for o in list(s.obs):
                o.on_next(v)

    def dispose(s):
        s.state = 3
        s.obs = []
        s.err = None
        s.value = None


class async_subject(subject):
    """+ (has_value, value): nothing before termination; on completion the last value then completion"""

    def subscribe(s, o, sch=None):  # (the scheduler a subscriber brings along changes nothing)
        if s.state == 3:
            raise DisposedException()
        if s.state == 0:
            s.obs.append(o)
        elif s.state == 2:
            o.on_error(s.err)
        elif s.has_value:
            o.on_next(s.value)
            o.on_completed()
        else:
            o.on_completed()

    def on_next(s, v):
        if s.state == 3:
            raise DisposedException()
        if s.state == 0:
            s.value = v
            s.has_value = True

    def on_completed(s):
        if s.state == 3:
            raise DisposedException()
        if s.state == 0:
            snapshot = list(s.obs)
            s.state = 1
            s.obs.clear()
            if s.has_value:
                final = s.value  # THE final value: what it is when the subject completes (a subscriber that disposes the subject meanwhile changes nothing)
                for o in snapshot:
                    o.on_next(final)
                    o.on_completed()
            else:
                for o in snapshot:
                    o.on_completed()

    def dispose(s):
        s.state = 3
        s.obs = []
        s.err = None
        s.value = None
