"""Spec machine for the handler form of catch (C10): `source.pipe(catch(handler))` with a callable handler."""


class catch_handler:
    """The source is mirrored.  Its error e is NOT passed on: the subscriber is handed to the observable handler(e, source)
    returned for it - subscribed once, right then, in place of the source's subscription - and from there on that continuation
    talks to the subscriber directly (the operator has no handlers of its own in between).  A handler that raises ends the
    output with its exception.  The continuation is subscribed only after the source terminated with an error: one source
    at a time, in order."""

    def init(s):
        s.switched = False
        s.term = False

    def done(s):
        return s.term or s.switched

    def on_next(s, out, x):
        out.on_next(x)

    def on_error(s, out, e):
        try:
            r = s.handler(e, s.source)
        except Exception as ex:
            s.term = True
            out.on_error(ex)
            return
        s.switched = True
        out.dispose_previous()
        out.subscribe(r)

    def on_completed(s, out):
        s.term = True
        out.on_completed()
