"""Spec machines for C18 (windows).  `out.new_subject()` creates the subject of a new window, `out.share(w)` is the observable
handed downstream for it (subscribing takes a share of the operator's ref-counted subscription); calls on a window's subject are
what the subscribers of that window see (Subject contract, C20).  `s.open` is the sequence of open windows, oldest first.

window_with_count(count, skip): element number n (from 0) goes to every open window; window k is opened right before element
k*skip (window 0 at subscription) and closed right after element k*skip + count - 1.  `valid` states the closed forms: after n
elements `opened = n // skip + 1` windows were opened and `closed = 0 if n < count else (n - count) // skip + 1` of them closed, and
the open ones are exactly the windows closed .. opened-1, in order.  Lemma (K8, seqlemma-style, in contracts/c18.py): window k is
among them when element n arrives iff k*skip <= n <= k*skip + count - 1."""


class window_with_count:
    def init(s):
        s.n = 0
        s.open = []
        s.opened = 0
        s.closed = 0
        s.term = False

    def done(s):
        return s.term

    def sk(s):
        return s.count if s.skip is None else s.skip

    def valid(s):
        return s.term or (s.n >= 0 and s.count >= 1 and s.sk() >= 1 and s.opened == s.n // s.sk() + 1
                          and s.closed == (0 if s.n < s.count else (s.n - s.count) // s.sk() + 1)
                          and len(s.open) == s.opened - s.closed and s.closed <= s.opened)

    def open_window(s, out):
        w = out.new_subject()
        s.open.append(w)
        s.opened += 1
        out.on_next(out.share(w))

    def on_subscribe(s, out):
        s.open_window(out)

    def on_next(s, out, x):
        for w in list(s.open):
            w.on_next(x)
        # the oldest open window (number `closed`) ends with element closed*skip + count - 1  (div/mod form: products of two
        # unknowns leave the solvers undecided; `valid` ties the two forms together)
        if s.n >= s.count - 1 and (s.n - s.count + 1) % s.sk() == 0:
            s.open.pop(0).on_completed()
            s.closed += 1
        s.n += 1
        # window number `opened` starts with element opened*skip
        if s.n % s.sk() == 0:
            s.open_window(out)

    def on_error(s, out, e):
        for w in list(s.open):
            w.on_error(e)
        s.open = []
        s.term = True
        out.on_error(e)

    def on_completed(s, out):
        for w in list(s.open):
            w.on_completed()
        s.open = []
        s.term = True
        out.on_completed()


class window_with_time_or_count:
    """one window at a time: it is closed - and the next one opened, with a fresh timespan - by its count-th element or when
    `timespan` has passed since it was opened, whichever comes first.  `gen` numbers the windows; the timer set for window k
    does nothing once window k was closed by its count (a stale timer)."""

    def init(s):
        s.n = 0
        s.gen = 0
        s.cur = None
        s.term = False
        s.clock = 0

    def done(s):
        return s.term

    def on_subscribe(s, out):
        s.cur = out.new_subject()
        out.on_next(out.share(s.cur))
        out.schedule_relative(s.timespan)

    def roll(s, out):
        s.n = 0
        s.gen += 1
        s.cur.on_completed()
        s.cur = out.new_subject()
        out.on_next(out.share(s.cur))
        out.cancel_timer()  # the new timer replaces the previous one
        out.schedule_relative(s.timespan)

    def on_next(s, out, x):
        s.cur.on_next(x)
        s.n += 1
        if s.n == s.count:
            s.roll(out)

    def on_fire(s, out, k):
        if k == s.gen:
            s.roll(out)

    def on_error(s, out, e):
        s.cur.on_error(e)
        s.term = True
        out.on_error(e)

    def on_completed(s, out):
        s.cur.on_completed()
        s.term = True
        out.on_completed()


class window_with_time:
    """window 0 opens at subscription (t0), window k at t0 + k*timeshift; window k closes at t0 + k*timeshift + timespan.
    One timer chain: the pending timer is due at the earlier of `next_open` and `next_close`; when it fires a window is opened
    (first) and / or the oldest open window is closed, and each of the two instants moves on by timeshift.  An element goes to
    every window that is open when it arrives.  `valid` states the closed forms over the ghost counters."""

    def init(s):
        s.open = []
        s.opened = 0
        s.closed = 0
        s.t0 = 0
        s.next_open = 0
        s.next_close = 0
        s.term = False
        s.clock = 0

    def done(s):
        # the timer chain goes on until the subscription is released (C02): what the machine does after the end is the same as
        # before - and unobservable (C01) - so no state is "terminated" here
        return False

    def sh(s):
        return s.timespan if s.timeshift is None else s.timeshift

    def valid(s):
        return (s.next_open == s.t0 + s.opened * s.sh() and s.next_close == s.t0 + s.closed * s.sh() + s.timespan
                and len(s.open) == s.opened - s.closed and 0 <= s.closed and s.closed <= s.opened and s.opened >= 1
                and s.t0 >= 1)

    def on_subscribe(s, out):
        s.t0 = out.now()
        w = out.new_subject()
        s.open.append(w)
        s.opened = 1
        out.on_next(out.share(w))
        s.next_open = s.t0 + s.sh()
        s.next_close = s.t0 + s.timespan
        out.schedule_absolute(min(s.next_open, s.next_close))

    def on_next(s, out, x):
        for w in list(s.open):
            w.on_next(x)

    def on_fire(s, out):
        opening = s.next_open <= s.next_close
        closing = s.next_close <= s.next_open
        if opening:
            w = out.new_subject()
            s.open.append(w)
            s.opened += 1
            out.on_next(out.share(w))
            s.next_open += s.sh()
        if closing:
            s.open.pop(0).on_completed()
            s.closed += 1
            s.next_close += s.sh()
        out.cancel_timer()
        out.schedule_absolute(min(s.next_open, s.next_close))

    def on_error(s, out, e):
        for w in list(s.open):
            w.on_error(e)
        s.term = True
        out.on_error(e)

    def on_completed(s, out):
        for w in list(s.open):
            w.on_completed()
        s.term = True
        out.on_completed()


class window_boundaries:
    """window(boundaries): one window at a time; every element of the source goes to the current window; every element of the
    boundaries closes it and opens the next one; a terminal notification of either ends the current window and the output"""

    def init(s):
        s.cur = None
        s.term = False

    def done(s):
        return s.term

    def on_subscribe(s, out):
        s.cur = out.new_subject()
        out.on_next(out.share(s.cur))

    def on_next(s, out, i, x):
        if i == 0:
            s.cur.on_next(x)
        else:
            s.cur.on_completed()
            s.cur = out.new_subject()
            out.on_next(out.share(s.cur))

    def on_error(s, out, i, e):
        s.cur.on_error(e)
        s.term = True
        out.on_error(e)

    def on_completed(s, out, i):
        s.cur.on_completed()
        s.term = True
        out.on_completed()


class window_when:
    """window_when(closing_mapper): one window at a time; the observable closing_mapper() returns for it is watched until its
    first element or its completion, which closes the window and opens the next one (with a new closing observable); an error
    of the source or of a closing observable ends the current window and the output.  A closing_mapper that raises ends the
    OUTPUT with that error (as the real code does: the window that was just opened is left without a terminal notification)."""

    def init(s):
        s.cur = None
        s.term = False

    def done(s):
        return s.term

    def arm(s, out):
        try:
            d = s.closing_mapper()
        except Exception as e:
            s.term = True
            out.on_error(e)
            return
        out.subscribe(d)

    def on_subscribe(s, out):
        s.cur = out.new_subject()
        out.on_next(out.share(s.cur))
        s.arm(out)

    def on_next(s, out, x):
        s.cur.on_next(x)

    def on_error(s, out, e):
        s.cur.on_error(e)
        s.term = True
        out.on_error(e)

    def on_completed(s, out):
        s.cur.on_completed()
        s.term = True
        out.on_completed()

    def roll(s, out):
        s.cur.on_completed()
        s.cur = out.new_subject()
        out.on_next(out.share(s.cur))
        s.arm(out)

    def closing_next(s, out, x):
        s.roll(out)

    def closing_completed(s, out):
        s.roll(out)

    def closing_error(s, out, e):
        s.cur.on_error(e)
        s.term = True
        out.on_error(e)


class group_join:
    """group_join(right, left_duration, right_duration) applied to `left` (source 0; `right` is source 1).  Every left element
    opens a window (a subject; the pair (element, shared observable of the window) is handed downstream) that lives until the
    observable left_duration(element) first emits or completes; every right element is sent to every open window and is retained
    until right_duration(element) first emits or completes - a window opened meanwhile is sent what is retained, in arrival
    order, right when it is opened.  An error of either source, of a duration or of a duration function ends every open window
    and the output.  The completion of the LEFT source ends the output - the open windows are left as they are; the completion of
    the right source is ignored (this is the real operator's contract, also what window_toggle inherits: known finding of C18)."""

    def init(s):
        s.windows = {}
        s.held = {}
        s.nl = 0
        s.nr = 0
        s.term = False

    def done(s):
        return s.term

    def valid(s):
        return s.nl >= 0 and s.nr >= 0

    def fail(s, out, e):
        for w in list(s.windows.values()):
            w.on_error(e)
        s.term = True
        out.on_error(e)

    def on_next(s, out, i, x):
        if i == 0:
            w = out.new_subject()
            k = s.nl
            s.nl += 1
            s.windows[k] = w
            out.on_next((x, out.share(w)))
            for v in list(s.held.values()):
                w.on_next(v)
            try:
                d = s.left_duration_mapper(x)
            except Exception as e:
                s.fail(out, e)
                return
            out.subscribe(d)
        else:
            k = s.nr
            s.nr += 1
            s.held[k] = x
            try:
                d = s.right_duration_mapper(x)
            except Exception as e:
                s.fail(out, e)
                return
            out.subscribe(d)
            for w in list(s.windows.values()):
                w.on_next(x)

    def on_error(s, out, i, e):
        s.fail(out, e)

    def on_completed(s, out, i):
        if i == 0:
            s.term = True
            out.on_completed()

    # the duration of the window number k
    def close_window(s, out, k):
        if k in s.windows:
            w = s.windows[k]
            del s.windows[k]
            w.on_completed()

    def ldur_next(s, out, k, _):
        s.close_window(out, k)

    def ldur_completed(s, out, k):
        s.close_window(out, k)

    def ldur_error(s, out, k, e):
        s.fail(out, e)

    # the duration of the retained right element number k
    def rdur_next(s, out, k, _):
        del s.held[k]

    def rdur_completed(s, out, k):
        del s.held[k]

    def rdur_error(s, out, k, e):
        s.fail(out, e)
