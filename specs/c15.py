"""Spec machine for delay (C15).  Time is virtual: every step happens at one instant `out.now()`.

The queue holds records (notification, due): due = arrival instant + the delay.  Three functions of such a queue
(head/tail recursion; natives.SEQFUNS on the symbolic side, the functions below natively), `now` being the instant of a tick:

  due_prefix_vals(q, now)       the elements of the longest prefix of records that are due (due <= now), up to a completion
  due_prefix_completes(q, now)  that prefix reaches the completion record
  drop_due_prefix(q, now)       what is left after that prefix (nothing after a completion)

delay(d): every element and the completion are delivered exactly d after they arrived, in order (one timer chain: armed by
the first record when idle, re-armed by each tick for the head that is left); an error is delivered at once and drops
whatever is pending."""
from reactivex.notification import OnCompleted, OnNext


def due_prefix_vals(q, now):
    out = []
    for (n, due) in q:
        if due > now or not isinstance(n, OnNext):
            break
        out.append(n.value)
    return out


def due_prefix_completes(q, now):
    for (n, due) in q:
        if due > now:
            return False
        if isinstance(n, OnCompleted):
            return True
    return False


def drop_due_prefix(q, now):
    k = 0
    while k < len(q) and q[k][1] <= now:
        if isinstance(q[k][0], OnCompleted):
            return []
        k += 1
    return list(q[k:])


class delay:
    def init(s):
        s.q = []
        s.active = False
        s.src_done = False
        s.term = False
        s.d = 0
        s.clock = 0

    def done(s):
        return s.term

    def on_subscribe(s, out):
        # an absolute due time is the shift that brings the subscription instant to it (it may lie in the past: the shift is
        # negative then and everything is delivered at once)
        s.d = (s.duetime - out.now()) if s.absolute else s.duetime

    def enqueue(s, out, n):
        now = out.now()
        s.q.append((n, now + s.d))
        if not s.active:
            s.active = True
            out.schedule_relative(s.d)

    def on_next(s, out, x):
        s.enqueue(out, OnNext(x))

    def on_completed(s, out):
        s.src_done = True
        s.enqueue(out, OnCompleted())

    def on_error(s, out, e):
        # at once; what is pending is dropped
        s.q = []
        s.term = True
        out.on_error(e)

    def on_fire(s, out):
        now = out.now()
        for x in due_prefix_vals(s.q, now):
            out.on_next(x)
        if due_prefix_completes(s.q, now):
            s.term = True
            s.q = []
            out.on_completed()
        else:
            s.q = drop_due_prefix(s.q, now)
            if len(s.q) > 0:
                out.schedule_relative(max(0, s.q[0][1] - now))
            else:
                s.active = False


class delay_with_mapper:
    """delay_with_mapper(mapper): every element x is held until the observable mapper(x) first emits or completes - then x is
    delivered, once; elements whose delays fire in another order are delivered in that order.  The output completes when the
    source has completed and no element is held any more; an error of the source, of mapper or of a delay ends it at once."""

    def init(s):
        s.pending = 0
        s.at_end = False
        s.term = False

    def done(s):
        return s.term

    def valid(s):
        return s.pending >= 0

    def on_next(s, out, x):
        try:
            d = s.mapper(x)
        except Exception as e:
            s.term = True
            out.on_error(e)
            return
        s.pending += 1
        out.subscribe(d)

    def on_error(s, out, e):
        s.term = True
        out.on_error(e)

    def on_completed(s, out):
        s.at_end = True
        if s.pending == 0:
            s.term = True
            out.on_completed()

    def release(s, out, x):
        out.on_next(x)
        s.pending -= 1
        if s.at_end and s.pending == 0:
            s.term = True
            out.on_completed()

    def delay_next(s, out, x, _):
        s.release(out, x)

    def delay_completed(s, out, x):
        s.release(out, x)

    def delay_error(s, out, x, e):
        s.term = True
        out.on_error(e)


class delay_with_mapper_sub(delay_with_mapper):
    """delay_with_mapper(subscription_delay, mapper): the source (0) is subscribed - once - when the subscription delay (1) first
    emits or completes, and the subscription delay is released then; from there on as delay_with_mapper(mapper)"""

    def init(s):
        s.pending = 0
        s.at_end = False
        s.term = False
        s.started = False

    def on_subscribe(s, out):
        out.subscribe_source(1)

    def start(s, out):
        if not s.started:
            s.started = True
            out.subscribe_source(0, False)
            out.dispose_source(1)

    def on_next(s, out, i, x):
        if i == 1:
            s.start(out)
        else:
            delay_with_mapper.on_next(s, out, x)

    def on_error(s, out, i, e):
        s.term = True
        out.on_error(e)

    def on_completed(s, out, i):
        if i == 1:
            s.start(out)
        else:
            delay_with_mapper.on_completed(s, out)
