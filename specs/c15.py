"""Spec machine for delay (C15).  Time is virtual: every step happens at one instant `out.now()`.

The queue holds records (notification, due): due = arrival instant + the delay.  Three functions of such a queue
(head/tail recursion; natives.SEQFUNS on the symbolic side, the functions below natively), `now` being the instant of a tick:

  due_prefix_vals(q, now)       the elements of the longest prefix of records that are due (due <= now), up to a completion
  due_prefix_completes(q, now)  that prefix reaches the completion record
  drop_due_prefix(q, now)       what is left after that prefix (nothing after a completion)

delay(d): every element and the completion are delivered exactly d after they arrived, in order (one timer chain: armed by
the first record when idle, re-armed by each tick for the head that is left); an error is delivered at once and drops
whatever is pending."""
from reactivex.notification import OnCompleted, OnNext


def due_prefix_vals(q, now):
    out = []
    for (n, due) in q:
        if due > now or not isinstance(n, OnNext):
            break
        out.append(n.value)
    return out


def due_prefix_completes(q, now):
    for (n, due) in q:
        if due > now:
            return False
        if isinstance(n, OnCompleted):
            return True
    return False


def drop_due_prefix(q, now):
    k = 0
    while k < len(q) and q[k][1] <= now:
        if isinstance(q[k][0], OnCompleted):
            return []
        k += 1
    return list(q[k:])


class delay:
    def init(s):
        s.q = []
        s.active = False
        s.term = False
        s.clock = 0

    def done(s):
        return s.term

    def enqueue(s, out, n):
        now = out.now()
        s.q.append((n, now + s.duetime))
        if not s.active:
            s.active = True
            out.schedule_relative(s.duetime)

    def on_next(s, out, x):
        s.enqueue(out, OnNext(x))

    def on_completed(s, out):
        s.enqueue(out, OnCompleted())

    def on_error(s, out, e):
        # at once; what is pending is dropped
        s.q = []
        s.term = True
        out.on_error(e)

    def on_fire(s, out):
        now = out.now()
        for x in due_prefix_vals(s.q, now):
            out.on_next(x)
        if due_prefix_completes(s.q, now):
            s.term = True
            s.q = []
            out.on_completed()
        else:
            s.q = drop_due_prefix(s.q, now)
            if len(s.q) > 0:
                out.schedule_relative(max(0, s.q[0][1] - now))
            else:
                s.active = False
