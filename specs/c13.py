"""Spec machines for C13 (multi-source combinators).  Handlers take the index i of the source that
produced the event.  `s.n` is the number of sources (the arity the contract instantiates)."""


class combine_latest:
    """once every source has produced a value: the tuple of latest values on every element"""

    def init(s):
        s.has = [False] * s.n
        s.vals = [None] * s.n
        s.done_ = [False] * s.n
        s.term = False

    def done(s):
        return s.term

    def on_next(s, out, i, x):
        s.vals[i] = x
        s.has[i] = True
        if all(s.has):
            out.on_next(tuple(s.vals))
        elif all(d for j, d in enumerate(s.done_) if j != i):
            # nobody else can ever contribute: no tuple will ever be complete
            s.term = True
            out.on_completed()

    def on_error(s, out, i, e):
        s.term = True
        out.on_error(e)

    def on_completed(s, out, i):
        s.done_[i] = True
        if all(s.done_):
            s.term = True
            out.on_completed()


class zip_:
    """the tuple of the k-th elements once every source produced its k-th element; completes when a completed
    source has no buffered element left"""

    def init(s):
        s.q = [[] for _ in range(s.n)]
        s.done_ = [False] * s.n
        s.term = False

    def done(s):
        return s.term

    def on_next(s, out, i, x):
        s.q[i].append(x)
        if all(len(q) > 0 for q in s.q):
            out.on_next(tuple([q.pop(0) for q in s.q]))
            if any(d for q, d in zip(s.q, s.done_) if len(q) == 0):
                s.term = True
                out.on_completed()

    def on_error(s, out, i, e):
        s.term = True
        out.on_error(e)

    def on_completed(s, out, i):
        s.done_[i] = True
        if len(s.q[i]) == 0:
            s.term = True
            out.on_completed()


class fork_join:
    """the tuple of last values when all completed; completes at once when one completes empty"""

    def init(s):
        s.has = [False] * s.n
        s.vals = [None] * s.n
        s.done_ = [False] * s.n
        s.term = False

    def done(s):
        return s.term

    def on_next(s, out, i, x):
        s.vals[i] = x
        s.has[i] = True

    def on_error(s, out, i, e):
        s.term = True
        out.on_error(e)

    def on_completed(s, out, i):
        s.done_[i] = True
        if not s.has[i]:
            s.term = True
            out.on_completed()
        elif all(s.done_):
            s.term = True
            out.on_next(tuple(s.vals))
            out.on_completed()


class with_latest_from:
    """source 0 is the primary: emits (primary, *latest others) on primary elements once every other has a value"""

    def init(s):
        s.has = [False] * s.n
        s.vals = [None] * s.n
        s.term = False

    def done(s):
        return s.term

    def on_subscribe(s, out):
        # the others are subscribed BEFORE the primary: a primary element delivered on subscription (or in the same instant as
        # the others' first values) already finds them
        for i in range(1, s.n):
            out.subscribe_source(i)
        out.subscribe_source(0)

    def on_next(s, out, i, x):
        if i == 0:
            if all(s.has[1:]):
                out.on_next((x,) + tuple(s.vals[1:]))
        else:
            s.vals[i] = x
            s.has[i] = True

    def on_error(s, out, i, e):
        s.term = True
        out.on_error(e)

    def on_completed(s, out, i):
        if i == 0:
            s.term = True
            out.on_completed()


class amb:
    """mirrors the first source to notify; the other one is unsubscribed at that moment"""

    def init(s):
        s.choice = -1
        s.term = False

    def done(s):
        return s.term

    def choose(s, out, i):
        if s.choice == -1:
            s.choice = i
            out.dispose_source(1 - i)

    def on_next(s, out, i, x):
        s.choose(out, i)
        if s.choice == i:
            out.on_next(x)

    def on_error(s, out, i, e):
        s.choose(out, i)
        if s.choice == i:
            s.term = True
            out.on_error(e)

    def on_completed(s, out, i):
        s.choose(out, i)
        if s.choice == i:
            s.term = True
            out.on_completed()


class take_until:
    """the source's elements until the other sequence produces an element (which completes the output); errors of either end it; the other's
    completion without an element changes nothing"""

    def init(s):
        s.term = False

    def done(s):
        return s.term

    def on_next(s, out, i, x):
        if i == 0:
            out.on_next(x)
        else:
            s.term = True
            out.on_completed()

    def on_error(s, out, i, e):
        s.term = True
        out.on_error(e)

    def on_completed(s, out, i):
        if i == 0:
            s.term = True
            out.on_completed()
