"""Spec machines for the timed operators that keep a QUEUE of time-stamped records (C17: take_last_with_time,
skip_last_with_time).  The queue is a sequence of records (t, x), t the instant at which x arrived.  Three functions
of such a queue (defined by head/tail recursion; natives.SEQFUNS on the symbolic side, the functions below natively):

  aged_prefix_vals(q, now, d)   values of the longest prefix whose records have age  now - t >= d
  drop_aged_prefix(q, now, d)   what is left of q after that prefix
  young_vals(q, now, d)         values of ALL records with age  now - t < d

The boundary rule of the property - younger means age < d, not younger means age >= d, in every handler alike - is
stated once, in these functions."""


def aged_prefix_vals(q, now, d):
    out = []
    for (t, x) in q:
        if now - t >= d:
            out.append(x)
        else:
            break
    return out


def drop_aged_prefix(q, now, d):
    k = 0
    while k < len(q) and now - q[k][0] >= d:
        k += 1
    return list(q[k:])


def young_vals(q, now, d):
    return [x for (t, x) in q if now - t < d]


class take_last_with_time:
    """at completion: exactly the elements younger than the duration.  Records that are no longer young are dropped at
    arrivals already (they can never become young again: time does not run backwards), so the rule does not depend on
    what else arrives."""

    def init(s):
        s.q = []
        s.clock = 0

    def on_next(s, out, x):
        now = out.now()
        s.q = drop_aged_prefix(s.q + [(now, x)], now, s.duration)

    def on_completed(s, out):
        now = out.now()
        for x in young_vals(s.q, now, s.duration):
            out.on_next(x)
        out.on_completed()


class skip_last_with_time:
    """an element is released as soon as it is not younger than the duration (seen at the next arrival or at completion);
    those still younger at completion are skipped"""

    def init(s):
        s.q = []
        s.clock = 0

    def on_next(s, out, x):
        now = out.now()
        q1 = s.q + [(now, x)]
        for y in aged_prefix_vals(q1, now, s.duration):
            out.on_next(y)
        s.q = drop_aged_prefix(q1, now, s.duration)

    def on_completed(s, out):
        now = out.now()
        for y in aged_prefix_vals(s.q, now, s.duration):
            out.on_next(y)
        s.q = drop_aged_prefix(s.q, now, s.duration)
        out.on_completed()
