"""Spec machines for C06 (aggregating operators = their Python reference computation)."""
import functools
import itertools

from reactivex.internal.exceptions import SequenceContainsNoElementsError
from reactivex.internal.utils import NotSet


class scan:
    """itertools.accumulate(h, accumulator[, initial=seed]) without the initial item"""

    def init(s):
        s.has = False
        s.acc = None
        s.failed = False

    def done(s):
        return s.failed

    def on_next(s, out, x):
        try:
            if s.has:
                a = s.accumulator(s.acc, x)
            elif s.seed is NotSet:
                a = x
            else:
                a = s.accumulator(s.seed, x)
        except Exception as e:
            s.failed = True
            out.on_error(e)
            return
        s.has = True
        s.acc = a
        out.on_next(a)

    @staticmethod
    def ref(h, t, accumulator, seed):
        out = []
        try:
            if seed is NotSet:
                for a in itertools.accumulate(h, accumulator):
                    out.append(a)
            else:
                # (itertools.accumulate treats initial=None as "no initial", so spell the prefixes out)
                for i in range(len(h)):
                    out.append(functools.reduce(accumulator, h[: i + 1], seed))
        except Exception as e:
            return out, ("error", e)
        return out, t


class reduce:
    """functools.reduce(accumulator, h[, seed]) emitted at completion; empty without seed is an error"""

    def init(s):
        s.has = False
        s.acc = None
        s.failed = False

    def done(s):
        return s.failed

    def on_next(s, out, x):
        try:
            if s.has:
                a = s.accumulator(s.acc, x)
            elif s.seed is NotSet:
                a = x
            else:
                a = s.accumulator(s.seed, x)
        except Exception as e:
            s.failed = True
            out.on_error(e)
            return
        s.has = True
        s.acc = a

    def on_completed(s, out):
        if s.has:
            out.on_next(s.acc)
            out.on_completed()
        elif s.seed is NotSet:
            out.on_error(SequenceContainsNoElementsError())
        else:
            out.on_next(s.seed)
            out.on_completed()

    @staticmethod
    def ref(h, t, accumulator, seed):
        try:
            if seed is NotSet:
                if not h:
                    return [], (("error", SequenceContainsNoElementsError()) if t == "completed" else t)
                r = functools.reduce(accumulator, h)
            else:
                r = functools.reduce(accumulator, h, seed)
        except Exception as e:
            return [], ("error", e)
        if t == "completed":
            return [r], t
        return [], t


class last_or_default_async:
    """xs[-1] at completion, or the default / SequenceContainsNoElementsError when empty"""

    def init(s):
        s.seen = False
        s.value = None

    def on_next(s, out, x):
        s.seen = True
        s.value = x

    def on_completed(s, out):
        if s.seen:
            out.on_next(s.value)
            out.on_completed()
        elif s.has_default:
            out.on_next(s.default_value)
            out.on_completed()
        else:
            out.on_error(SequenceContainsNoElementsError())

    @staticmethod
    def ref(h, t, has_default, default_value):
        if t != "completed":
            return [], t
        if h:
            return [h[-1]], t
        if has_default:
            return [default_value], t
        return [], ("error", SequenceContainsNoElementsError())


class first_or_default_async:
    """xs[0] emitted at the first element"""

    def init(s):
        s.found = False

    def done(s):
        return s.found

    def on_next(s, out, x):
        s.found = True
        out.on_next(x)
        out.on_completed()

    def on_completed(s, out):
        if s.has_default:
            out.on_next(s.default_value)
            out.on_completed()
        else:
            out.on_error(SequenceContainsNoElementsError())

    @staticmethod
    def ref(h, t, has_default, default_value):
        if h:
            return [h[0]], "completed"
        if t != "completed":
            return [], t
        if has_default:
            return [default_value], t
        return [], ("error", SequenceContainsNoElementsError())


class single_or_default_async:
    """the only element at completion; fails on a second element"""

    def init(s):
        s.seen = False
        s.value = None
        s.failed = False

    def done(s):
        return s.failed

    def on_next(s, out, x):
        if s.seen:
            s.failed = True
            out.on_error(Exception("Sequence contains more than one element"))
        else:
            s.seen = True
            s.value = x

    def on_completed(s, out):
        if s.seen:
            out.on_next(s.value)
            out.on_completed()
        elif s.has_default:
            out.on_next(s.default_value)
            out.on_completed()
        else:
            out.on_error(SequenceContainsNoElementsError())

    @staticmethod
    def ref(h, t, has_default, default_value):
        if len(h) > 1:
            return [], ("error", Exception("Sequence contains more than one element"))
        if t != "completed":
            return [], t
        if h:
            return [h[0]], t
        if has_default:
            return [default_value], t
        return [], ("error", SequenceContainsNoElementsError())


class filtered:
    """mixin: elements are first passed through an optional predicate (filter); a raising predicate is an error"""

    def accept(s, out, x):
        if s.predicate:
            try:
                ok = s.predicate(x)
            except Exception as e:
                s.pfailed = True
                out.on_error(e)
                return False
            if not ok:
                return False
        return True


class last(filtered):
    def init(s):
        s.seen = False
        s.value = None
        s.pfailed = False

    def done(s):
        return s.pfailed

    def on_next(s, out, x):
        if s.accept(out, x):
            s.seen = True
            s.value = x

    def on_completed(s, out):
        if s.seen:
            out.on_next(s.value)
            out.on_completed()
        else:
            out.on_error(SequenceContainsNoElementsError())

    @staticmethod
    def ref(h, t, predicate):
        try:
            xs = [x for x in h if predicate(x)] if predicate else list(h)
        except Exception as e:
            return [], ("error", e)
        if t != "completed":
            return [], t
        if xs:
            return [xs[-1]], t
        return [], ("error", SequenceContainsNoElementsError())


class last_or_default(filtered):
    def init(s):
        s.seen = False
        s.value = None
        s.pfailed = False

    def done(s):
        return s.pfailed

    def on_next(s, out, x):
        if s.accept(out, x):
            s.seen = True
            s.value = x

    def on_completed(s, out):
        out.on_next(s.value if s.seen else s.default_value)
        out.on_completed()

    @staticmethod
    def ref(h, t, default_value, predicate):
        try:
            xs = [x for x in h if predicate(x)] if predicate else list(h)
        except Exception as e:
            return [], ("error", e)
        if t != "completed":
            return [], t
        return [xs[-1] if xs else default_value], t


class first(filtered):
    def init(s):
        s.found = False
        s.pfailed = False

    def done(s):
        return s.found or s.pfailed

    def on_next(s, out, x):
        if s.accept(out, x):
            s.found = True
            out.on_next(x)
            out.on_completed()

    def on_completed(s, out):
        out.on_error(SequenceContainsNoElementsError())

    @staticmethod
    def ref(h, t, predicate):
        for x in h:
            try:
                if not predicate or predicate(x):
                    return [x], "completed"
            except Exception as e:
                return [], ("error", e)
        if t != "completed":
            return [], t
        return [], ("error", SequenceContainsNoElementsError())


class first_or_default(filtered):
    def init(s):
        s.found = False
        s.pfailed = False

    def done(s):
        return s.found or s.pfailed

    def on_next(s, out, x):
        if s.accept(out, x):
            s.found = True
            out.on_next(x)
            out.on_completed()

    def on_completed(s, out):
        out.on_next(s.default_value)
        out.on_completed()

    @staticmethod
    def ref(h, t, predicate, default_value):
        for x in h:
            try:
                if not predicate or predicate(x):
                    return [x], "completed"
            except Exception as e:
                return [], ("error", e)
        if t != "completed":
            return [], t
        return [default_value], t


class single(filtered):
    def init(s):
        s.seen = False
        s.value = None
        s.failed = False
        s.pfailed = False

    def done(s):
        return s.failed or s.pfailed

    def on_next(s, out, x):
        if s.accept(out, x):
            if s.seen:
                s.failed = True
                out.on_error(Exception("Sequence contains more than one element"))
            else:
                s.seen = True
                s.value = x

    def on_completed(s, out):
        if s.seen:
            out.on_next(s.value)
            out.on_completed()
        else:
            out.on_error(SequenceContainsNoElementsError())

    @staticmethod
    def ref(h, t, predicate):
        xs = []
        for x in h:
            try:
                if not predicate or predicate(x):
                    xs.append(x)
            except Exception as e:
                return [], ("error", e)
            if len(xs) > 1:
                return [], ("error", Exception("Sequence contains more than one element"))
        if t != "completed":
            return [], t
        if xs:
            return [xs[0]], t
        return [], ("error", SequenceContainsNoElementsError())


class single_or_default(filtered):
    def init(s):
        s.seen = False
        s.value = None
        s.failed = False
        s.pfailed = False

    def done(s):
        return s.failed or s.pfailed

    def on_next(s, out, x):
        if s.accept(out, x):
            if s.seen:
                s.failed = True
                out.on_error(Exception("Sequence contains more than one element"))
            else:
                s.seen = True
                s.value = x

    def on_completed(s, out):
        out.on_next(s.value if s.seen else s.default_value)
        out.on_completed()

    @staticmethod
    def ref(h, t, predicate, default_value):
        xs = []
        for x in h:
            try:
                if not predicate or predicate(x):
                    xs.append(x)
            except Exception as e:
                return [], ("error", e)
            if len(xs) > 1:
                return [], ("error", Exception("Sequence contains more than one element"))
        if t != "completed":
            return [], t
        return [xs[0] if xs else default_value], t


class some(filtered):
    """any(predicate(x) for x in h) - True at the deciding element, False at completion"""

    def init(s):
        s.found = False
        s.pfailed = False

    def done(s):
        return s.found or s.pfailed

    def on_next(s, out, x):
        if s.accept(out, x):
            s.found = True
            out.on_next(True)
            out.on_completed()

    def on_completed(s, out):
        out.on_next(False)
        out.on_completed()

    @staticmethod
    def ref(h, t, predicate):
        for x in h:
            try:
                if not predicate or predicate(x):
                    return [True], "completed"
            except Exception as e:
                return [], ("error", e)
        if t != "completed":
            return [], t
        return [False], t


class all_:
    """all(predicate(x) for x in h) - False at the deciding element, True at completion"""

    def init(s):
        s.found = False
        s.pfailed = False

    def done(s):
        return s.found or s.pfailed

    def on_next(s, out, x):
        try:
            bad = not s.predicate(x)
        except Exception as e:
            s.pfailed = True
            out.on_error(e)
            return
        if bad:
            s.found = True
            out.on_next(False)
            out.on_completed()

    def on_completed(s, out):
        out.on_next(True)
        out.on_completed()

    @staticmethod
    def ref(h, t, predicate):
        for x in h:
            try:
                if not predicate(x):
                    return [False], "completed"
            except Exception as e:
                return [], ("error", e)
        if t != "completed":
            return [], t
        return [True], t


class contains:
    """any(comparer(x, value)) / value in h"""

    def init(s):
        s.found = False
        s.pfailed = False

    def done(s):
        return s.found or s.pfailed

    def on_next(s, out, x):
        try:
            hit = s.comparer(x, s.value) if s.comparer else x == s.value
        except Exception as e:
            s.pfailed = True
            out.on_error(e)
            return
        if hit:
            s.found = True
            out.on_next(True)
            out.on_completed()

    def on_completed(s, out):
        out.on_next(False)
        out.on_completed()

    @staticmethod
    def ref(h, t, value, comparer):
        for x in h:
            try:
                if comparer(x, value) if comparer else x == value:
                    return [True], "completed"
            except Exception as e:
                return [], ("error", e)
        if t != "completed":
            return [], t
        return [False], t


class is_empty:
    def init(s):
        s.found = False

    def done(s):
        return s.found

    def on_next(s, out, x):
        s.found = True
        out.on_next(False)
        out.on_completed()

    def on_completed(s, out):
        out.on_next(True)
        out.on_completed()

    @staticmethod
    def ref(h, t):
        if h:
            return [False], "completed"
        if t != "completed":
            return [], t
        return [True], t


class count(filtered):
    """len([x for x in h if predicate(x)]) at completion"""

    def init(s):
        s.n = 0
        s.pfailed = False

    def done(s):
        return s.pfailed

    def on_next(s, out, x):
        if s.accept(out, x):
            s.n += 1

    def on_completed(s, out):
        out.on_next(s.n)
        out.on_completed()

    @staticmethod
    def ref(h, t, predicate):
        try:
            n = len([x for x in h if predicate(x)]) if predicate else len(h)
        except Exception as e:
            return [], ("error", e)
        if t != "completed":
            return [], t
        return [n], t


class to_iterable:
    def init(s):
        s.q = []

    def on_next(s, out, x):
        s.q.append(x)

    def on_completed(s, out):
        out.on_next(list(s.q))
        out.on_completed()

    @staticmethod
    def ref(h, t):
        if t != "completed":
            return [], t
        return [list(h)], t


class extrema_by:
    """all elements whose key is extremal under comparer (sign > 0: new extremum, == 0: tie), at completion"""

    def init(s):
        s.has = False
        s.last_key = None
        s.items = []
        s.failed = False

    def done(s):
        return s.failed

    def on_next(s, out, x):
        try:
            key = s.key_mapper(x)
        except Exception as e:
            s.failed = True
            out.on_error(e)
            return
        comparison = 0
        if not s.has:
            s.has = True
            s.last_key = key
        else:
            try:
                comparison = s.comparer(key, s.last_key)
            except Exception as e:
                s.failed = True
                out.on_error(e)
                return
        if comparison > 0:
            s.last_key = key
            s.items = []
        if comparison >= 0:
            s.items.append(x)

    def on_completed(s, out):
        out.on_next(list(s.items))
        out.on_completed()

    @staticmethod
    def ref(h, t, key_mapper, comparer):
        best, items = None, []
        for x in h:
            try:
                k = key_mapper(x)
                c = 0 if not items else comparer(k, best)
            except Exception as e:
                return [], ("error", e)
            if not items or c > 0:
                best, items = k, [x]
            elif c == 0:
                items.append(x)
        if t != "completed":
            return [], t
        return [items], t


class count:
    """len([x for x in h if predicate(x)])"""

    def init(s):
        s.n = 0
        s.pfailed = False

    def done(s):
        return s.pfailed

    def on_next(s, out, x):
        if s.predicate:
            try:
                keep = s.predicate(x)
            except Exception as e:
                s.pfailed = True
                out.on_error(e)
                return
            if not keep:
                return
        s.n = s.n + 1

    def on_completed(s, out):
        out.on_next(s.n)
        out.on_completed()

    @staticmethod
    def ref(h, t, predicate):
        try:
            n = len([x for x in h if predicate(x)]) if predicate else len(h)
        except Exception as e:
            return [], ("error", e)
        if t != "completed":
            return [], t
        return [n], t


class sum_:
    """sum(map(key_mapper, h)) - a left fold of + starting from 0"""

    def init(s):
        s.total = 0
        s.kfailed = False
        s.afailed = False

    def done(s):
        return s.kfailed or s.afailed

    def on_next(s, out, x):
        v = x
        if s.key_mapper:
            try:
                v = s.key_mapper(x)
            except Exception as e:
                s.kfailed = True
                out.on_error(e)
                return
        try:
            tot = s.total + v
        except Exception as e:
            s.afailed = True
            out.on_error(e)
            return
        s.total = tot

    def on_completed(s, out):
        out.on_next(s.total)
        out.on_completed()

    @staticmethod
    def ref(h, t, key_mapper):
        try:
            r = sum(map(key_mapper, h)) if key_mapper else sum(h)  # (map is lazy: element by element)
        except Exception as e:
            return [], ("error", e)
        if t != "completed":
            return [], t
        return [r], t


class average:
    """sum(map(key, h)) / len(h) with key = key_mapper or float; an empty sequence has no average"""

    def init(s):
        s.total = 0
        s.n = 0
        s.kfailed = False
        s.afailed = False

    def done(s):
        return s.kfailed or s.afailed

    def on_next(s, out, x):
        try:
            v = s.key_mapper(x) if s.key_mapper else float(x)
        except Exception as e:
            s.kfailed = True
            out.on_error(e)
            return
        try:
            tot = s.total + v
        except Exception as e:
            s.afailed = True
            out.on_error(e)
            return
        s.total = tot
        s.n = s.n + 1

    def on_completed(s, out):
        if s.n == 0:
            out.on_error(SequenceContainsNoElementsError())
            return
        out.on_next(s.total / float(s.n))
        out.on_completed()

    @staticmethod
    def ref(h, t, key_mapper):
        try:
            tot = 0
            for x in h:  # (element by element: the first failing conversion or addition is the error)
                tot = tot + (key_mapper(x) if key_mapper else float(x))
        except Exception as e:
            return [], ("error", e)
        if t != "completed":
            return [], t
        if not h:
            return [], ("error", SequenceContainsNoElementsError())
        return [tot / float(len(h))], t


class min_by:
    """all elements whose key is minimal (sign = -1) / maximal (sign = +1) under comparer, in arrival order, at completion"""
    sign = -1

    def init(s):
        s.has = False
        s.last_key = None
        s.items = []
        s.failed = False

    def done(s):
        return s.failed

    def compare(s, a, b):
        if s.comparer:
            c = s.comparer(a, b)
        else:
            c = (a > b) - (a < b)  # Python's own ordering of the keys
        if s.sign < 0:
            return -c
        return c

    def on_next(s, out, x):
        try:
            key = s.key_mapper(x)
        except Exception as e:
            s.failed = True
            out.on_error(e)
            return
        comparison = 0
        if not s.has:
            s.has = True
            s.last_key = key
        else:
            try:
                comparison = s.compare(key, s.last_key)
            except Exception as e:
                s.failed = True
                out.on_error(e)
                return
        if comparison > 0:
            s.last_key = key
            s.items = []
        if comparison >= 0:
            s.items.append(x)

    def on_completed(s, out):
        out.on_next(list(s.items))
        out.on_completed()

    @classmethod
    def ref(cls, h, t, key_mapper, comparer):
        best, items = None, []
        try:
            for x in h:  # (element by element: the first failing key or comparison is the error)
                k = key_mapper(x)
                if not items:
                    best, items = k, [x]
                    continue
                c = comparer(k, best) if comparer else (k > best) - (k < best)
                if cls.sign * c > 0:
                    best, items = k, [x]
                elif c == 0:
                    items.append(x)
        except Exception as e:
            return [], ("error", e)
        if t != "completed":
            return [], t
        if comparer is None and h:
            want = min if cls.sign < 0 else max
            assert key_mapper(items[0]) == want(key_mapper(x) for x in h)  # the literal Python meaning
        return [items], t


class max_by(min_by):
    sign = 1


class min_:
    """min(h) (the first minimal element) under comparer; an empty sequence has none"""
    sign = -1

    def init(s):
        s.has = False
        s.best = None
        s.failed = False

    def done(s):
        return s.failed

    def on_next(s, out, x):
        if not s.has:
            s.has = True
            s.best = x
            return
        try:
            if s.comparer:
                c = s.comparer(x, s.best)
            else:
                c = (x > s.best) - (x < s.best)  # Python's own ordering of the elements
        except Exception as e:
            s.failed = True
            out.on_error(e)
            return
        if s.sign < 0:
            c = -c
        if c > 0:
            s.best = x

    def on_completed(s, out):
        if not s.has:
            out.on_error(SequenceContainsNoElementsError())
            return
        out.on_next(s.best)
        out.on_completed()

    @classmethod
    def ref(cls, h, t, comparer):
        try:
            if comparer is None:
                r = (min(h) if cls.sign < 0 else max(h)) if h else None
            else:
                r = None
                for i, x in enumerate(h):
                    if i == 0 or cls.sign * comparer(x, r) > 0:
                        r = x
        except Exception as e:
            return [], ("error", e)
        if t != "completed":
            return [], t
        if not h:
            return [], ("error", SequenceContainsNoElementsError())
        return [r], t


class max_(min_):
    sign = 1


class to_set:
    """set(h) at completion"""

    def init(s):
        s.items = set()

    def on_next(s, out, x):
        s.items.add(x)

    def on_completed(s, out):
        out.on_next(s.items)
        s.items = set()
        out.on_completed()

    @staticmethod
    def ref(h, t):
        if t != "completed":
            return [], t
        return [set(h)], t


class to_dict:
    """{key_mapper(x): element_mapper(x) for x in h} at completion (later elements win)"""

    def init(s):
        s.d = dict()
        s.failed = False

    def done(s):
        return s.failed

    def on_next(s, out, x):
        try:
            key = s.key_mapper(x)
        except Exception as e:
            s.failed = True
            out.on_error(e)
            return
        if s.element_mapper:
            try:
                element = s.element_mapper(x)
            except Exception as e:
                s.failed = True
                out.on_error(e)
                return
        else:
            element = x
        s.d[key] = element

    def on_completed(s, out):
        out.on_next(s.d)
        s.d = dict()
        out.on_completed()

    @staticmethod
    def ref(h, t, key_mapper, element_mapper):
        try:
            d = {key_mapper(x): (element_mapper(x) if element_mapper else x) for x in h}
        except Exception as e:
            return [], ("error", e)
        if t != "completed":
            return [], t
        return [d], t


class sequence_equal:
    """len(a) == len(b) and all(comparer(x, y) for x, y in zip(a, b)), decided as early as the two histories allow:
    False at the first pair that differs or as soon as one side has an element the finished other side cannot match,
    True when both completed with nothing unmatched.  Source 0 is the left sequence, source 1 the right one; the
    comparer always gets (left element, right element)."""

    def init(s):
        s.q = [[] for _ in range(s.n)]
        s.done_ = [False] * s.n
        s.term = False

    def done(s):
        return s.term

    def compare(s, a, b):
        if s.comparer:
            return s.comparer(a, b)
        return a == b

    def on_next(s, out, i, x):
        o = 1 - i
        if len(s.q[o]) > 0:
            v = s.q[o].pop(0)
            try:
                if i == 0:
                    equal = s.compare(x, v)
                else:
                    equal = s.compare(v, x)
            except Exception as e:
                s.term = True
                out.on_error(e)
                return
            if not equal:
                s.term = True
                out.on_next(False)
                out.on_completed()
        elif s.done_[o]:
            s.term = True
            out.on_next(False)
            out.on_completed()
        else:
            s.q[i].append(x)

    def on_error(s, out, i, e):
        s.term = True
        out.on_error(e)

    def on_completed(s, out, i):
        o = 1 - i
        s.done_[i] = True
        if len(s.q[i]) == 0:
            if len(s.q[o]) > 0:
                s.term = True
                out.on_next(False)
                out.on_completed()
            elif s.done_[o]:
                s.term = True
                out.on_next(True)
                out.on_completed()
